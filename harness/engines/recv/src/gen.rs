//! Seeded case generator of engine `recv`.
use crate::shadow::{parse_info, Inst, Shadow};
use crate::{st, TSI};
use flute::core::lct::Cenc;
use flute::core::{Oti, UDPEndpoint};
use flute::sender::{self, ObjectDesc, Sender, TransferConfig};
use flute::verif_hooks as hk;
use harness_core::{guarded, hex, Ctx, Engine, Rng};

/// 2026-09-21T.. in µs; a whole number of seconds so that `Expires` (floored NTP seconds) is exact
pub const T0: i64 = 1_790_000_000 * 1_000_000;
const SEC: i64 = 1_000_000;

struct G<'a> {
    ctx: &'a mut Ctx,
    eng: &'a mut dyn Engine,
    sh: Shadow,
    /// the FDT instance the datagram just described completes (in the shadow)
    done: Option<u32>,
}

fn ans_str(inst: &Inst) -> String {
    match &inst.answer {
        None => "X".to_string(),
        Some(a) => {
            let files = match &a.files {
                None => "-".to_string(),
                Some(fs) if fs.is_empty() => "=".to_string(),
                Some(fs) => fs
                    .iter()
                    .map(|f| {
                        let cc = match f.cache_control {
                            0 => "n".to_string(),
                            1 => "nc".to_string(),
                            2 => "ms".to_string(),
                            _ => format!("e{}", f.cache_expires),
                        };
                        let ss = match f.oti_ss {
                            None => "-".to_string(),
                            Some((k, a, b, c)) => format!("{}.{}.{}.{}", k, a, b, c),
                        };
                        let oti = match f.oti {
                            None => "-".to_string(),
                            Some((fec, esl, msbl)) => format!("{}:{}:{}:{}:{}", fec, esl, msbl, f.oti_parity, ss),
                        };
                        let cl = f.content_length.map(|x| x.to_string()).unwrap_or_else(|| "-".to_string());
                        format!("{}/{}/{}/{}/{}/{}", hex(f.toi.as_bytes()), cc, f.transfer_length, oti, cl, f.cenc)
                    })
                    .collect::<Vec<_>>()
                    .join(","),
            };
            format!("A {} {} {}", inst.utf8 as u8, hex(a.expires.as_bytes()), files)
        }
    }
}

#[derive(PartialEq, Clone, Copy)]
enum Kind {
    Rej,
    Tsi,
    Pkt,
    /// the public parser panics on it, or the FDT summary hook does: outside the modelled stream
    Out,
}

impl<'a> G<'a> {
    #[allow(clippy::too_many_arguments)]
    fn cfg(&mut self, id: &str, me: usize, st_: bool, ot: bool, mc: usize, once: bool, chk: bool, skew: i64, sct: bool, fast: bool) {
        self.ctx.case(id);
        self.eng.reset();
        self.sh = Shadow { once, obj_to: ot, ..Default::default() };
        let op = format!(
            "recv cfg {} {} {} {} {} {} {} {} {}",
            me, st_ as u8, ot as u8, mc, once as u8, chk as u8, skew, sct as u8, fast as u8
        );
        self.ctx.step(self.eng, &op);
    }

    /// the op line of a datagram (abstract form for the model + raw bytes for the implementation)
    fn describe(&mut self, bytes: &[u8], now: i64) -> (Kind, String) {
        let h = hex(bytes);
        match guarded(|| parse_info(bytes)) {
            Err(_) => (Kind::Out, String::new()),
            Ok(Err(())) => (Kind::Rej, format!("recv rej {} {}", now, h)),
            Ok(Ok(i)) => {
                if i.tsi != TSI {
                    return (Kind::Tsi, format!("recv tsi {} {}", now, h));
                }
                let mut ans = "X".to_string();
                if i.toi == 0 {
                    if let Some(id) = i.fdt_id {
                        let done = self.sh.feed(&i, now as i128);
                        if let Some(inst) = self.sh.inst.get(&id) {
                            if inst.hook_panic {
                                return (Kind::Out, String::new());
                            }
                            if done {
                                ans = ans_str(inst);
                                self.done = Some(id);
                            }
                        }
                    }
                }
                let opt = |x: Option<String>| x.unwrap_or_else(|| "-".to_string());
                let line = format!(
                    "recv pkt {} {} {} {} {} {} {} {} {} {} {}",
                    now,
                    h,
                    i.toi,
                    i.co as u8,
                    i.cs as u8,
                    opt(i.fdt_id.map(|x| x.to_string())),
                    opt(i.sct.map(|x| x.to_string())),
                    opt(i.fti.map(|(f, e, b, l)| format!("{}:{}:{}:{}", f, e, b, l))),
                    opt(i.pid.map(|(s, e)| format!("{}:{}", s, e))),
                    i.payload.len(),
                    ans
                );
                (Kind::Pkt, line)
            }
        }
    }

    /// a datagram built by the generator itself (always in the modelled scope)
    fn push(&mut self, bytes: &[u8], now: i64) -> String {
        self.done = None;
        let (k, line) = self.describe(bytes, now);
        if k == Kind::Out {
            self.ctx.count("skipped:parser-or-hook-panic");
            return String::new();
        }
        let obs = self.ctx.step(self.eng, &line);
        if let Some(id) = self.done.take() {
            self.sh.completed_call(id, &obs);
        }
        obs
    }

    /// a mutated datagram: modelled when the parser rejects it or it belongs to another TSI
    fn push_mutant(&mut self, bytes: &[u8], now: i64) -> bool {
        let (k, line) = self.describe_no_feed(bytes, now);
        match k {
            Kind::Rej | Kind::Tsi => {
                self.ctx.step(self.eng, &line);
                self.ctx.count(if k == Kind::Rej { "mutant:rejected" } else { "mutant:other-tsi" });
                true
            }
            _ => {
                self.ctx.count("mutant:accepted(only in the opaque stream)");
                false
            }
        }
    }

    fn describe_no_feed(&mut self, bytes: &[u8], now: i64) -> (Kind, String) {
        let h = hex(bytes);
        match guarded(|| parse_info(bytes)) {
            Err(_) => (Kind::Out, String::new()),
            Ok(Err(())) => (Kind::Rej, format!("recv rej {} {}", now, h)),
            Ok(Ok(i)) => {
                if i.tsi != TSI {
                    (Kind::Tsi, format!("recv tsi {} {}", now, h))
                } else {
                    (Kind::Pkt, String::new())
                }
            }
        }
    }

    fn fz(&mut self, bytes: &[u8], now: i64) {
        self.ctx.step(self.eng, &format!("recv fz {} {}", now, hex(bytes)));
    }
    fn cleanup(&mut self, now: i64, stale: bool) -> String {
        self.sh.cleanup(if stale { "1" } else { "0" });
        self.ctx.step(self.eng, &format!("recv cleanup {} {}", now, stale as u8))
    }
    fn isexp(&mut self, el: bool) {
        self.ctx.step(self.eng, &format!("recv isexp {}", el as u8));
    }
    fn expect_c(&mut self, toi: u128, len: usize, cls: &str) {
        self.ctx.step(self.eng, &format!("recv expect {} c {} {}", toi, len, cls));
    }
    fn expect_s(&mut self, toi: u128, cls: &str) {
        self.ctx.step(self.eng, &format!("recv expect {} s 0 {}", toi, cls));
    }
    fn end(&mut self) {
        self.probe();
        self.ctx.end_case(self.eng);
    }
    /// registries the per-call line does not show (read from the receiver's Debug output)
    fn probe(&mut self) {
        self.ctx.step(self.eng, "recv probe");
    }
    fn sleep(&mut self, ms: u64) {
        self.ctx.step(self.eng, &format!("recv sleep {}", ms));
    }
    /// cleanup at which exactly the given objects / unfinished FDT instances have timed out
    fn cleanup_spec(&mut self, now: i64, tois: &[u128], ids: &[u32]) -> String {
        let j = |v: Vec<String>| if v.is_empty() { "-".to_string() } else { v.join(",") };
        let spec = format!("T{}/F{}", j(tois.iter().map(|x| x.to_string()).collect()), j(ids.iter().map(|x| x.to_string()).collect()));
        self.sh.cleanup(&spec);
        self.ctx.step(self.eng, &format!("recv cleanup {} {}", now, spec))
    }
    #[allow(clippy::too_many_arguments)]
    fn cfg2(&mut self, id: &str, me: usize, st_: bool, ot: bool, mc: usize, once: bool, chk: bool, skew: i64, sct: bool, fast: u8) {
        self.ctx.case(id);
        self.eng.reset();
        self.sh = Shadow { once, obj_to: ot, ..Default::default() };
        let op = format!("recv cfg {} {} {} {} {} {} {} {} {}", me, st_ as u8, ot as u8, mc, once as u8, chk as u8, skew, sct as u8, fast);
        self.ctx.step(self.eng, &op);
    }
}

// ------------------------------------------------------------------------------------------------
// sessions from the real sender

pub struct Sess {
    /// (datagram, sender time of `read`)
    pub pkts: Vec<(Vec<u8>, i64)>,
    pub objs: Vec<(u128, usize)>,
}

#[allow(clippy::too_many_arguments)]
pub fn session(
    rng: &mut Rng,
    t0: i64,
    sct: bool,
    dur_s: u64,
    start_id: u32,
    toi0: u128,
    lens: &[usize],
    e: u16,
    b: u16,
    inband: bool,
    cc_mode: u8,
) -> Sess {
    let mut oti = Oti::new_no_code(e, b);
    oti.inband_fti = inband;
    let config = sender::Config {
        fdt_duration: std::time::Duration::from_secs(dur_s),
        fdt_inband_sct: sct,
        fdt_start_id: start_id,
        toi_initial_value: Some(toi0),
        ..Default::default()
    };
    let ep = UDPEndpoint::new(None, "224.0.0.1".to_string(), 5000);
    let mut s = Sender::new(ep, TSI, &oti, &config);
    let mut objs = Vec::new();
    for (k, len) in lens.iter().enumerate() {
        let content = rng.bytes(*len);
        let cc = match (cc_mode as usize + k) % 5 {
            0 => None,
            1 => Some(sender::CacheControl::NoCache),
            2 => Some(sender::CacheControl::MaxStale),
            3 => Some(sender::CacheControl::ExpiresAt(st(t0 + 7200 * SEC))),
            _ => Some(sender::CacheControl::Expires(std::time::Duration::from_secs(600))),
        };
        let cc = if cc_mode == 255 { None } else { cc };
        let url = url::Url::parse(&format!("file:///o{}-{}", toi0, k)).unwrap();
        let od = ObjectDesc::create_from_buffer(
            content,
            "application/octet-stream",
            &url,
            k % 2 == 0,
            TransferConfig { cache_control: cc, cenc: Cenc::Null, inband_cenc: false, ..Default::default() },
        )
        .unwrap();
        let toi = s.add_object(0, od).unwrap();
        objs.push((toi, *len));
    }
    s.publish(st(t0)).unwrap();
    let mut pkts = Vec::new();
    for i in 0..20000i64 {
        let t = t0 + i * 1000;
        match s.read(st(t)) {
            Some(d) => pkts.push((d, t)),
            None => break,
        }
    }
    Sess { pkts, objs }
}

fn is_fdt(d: &[u8]) -> bool {
    matches!(parse_info(d), Ok(i) if i.toi == 0)
}
fn toi_of(d: &[u8]) -> u128 {
    parse_info(d).map(|i| i.toi).unwrap_or(0)
}

/// hook-built packet (No-Code, TSI of the session)
#[allow(clippy::too_many_arguments)]
pub fn mk_pkt(toi: u128, fdt_id: Option<u32>, e: u16, b: u16, inband_fti: bool, tlen: u64, sbn: u32, esi: u32, payload: Vec<u8>, close_object: bool, sct: Option<i64>) -> Vec<u8> {
    let mut oti = Oti::new_no_code(e, b);
    oti.inband_fti = inband_fti;
    let p = hk::PktFields {
        payload,
        transfer_length: tlen,
        esi,
        sbn,
        toi,
        fdt_id,
        cenc: Cenc::Null,
        inband_cenc: false,
        close_object,
        source_block_length: 0,
        sender_current_time: sct.is_some(),
    };
    hk::new_alc_pkt(&oti, &0u128, TSI, &p, false, st(sct.unwrap_or(0)))
}

/// an FDT instance (arbitrary bytes as XML) cut into No-Code symbols of `e` bytes, one block
pub fn fdt_pkts(xml: &[u8], id: u32, e: u16, sct: Option<i64>) -> Vec<Vec<u8>> {
    let n = (xml.len() + e as usize - 1) / e as usize;
    (0..n)
        .map(|i| {
            let s = i * e as usize;
            let en = (s + e as usize).min(xml.len());
            mk_pkt(0, Some(id), e, 4096, true, xml.len() as u64, 0, i as u32, xml[s..en].to_vec(), false, sct)
        })
        .collect()
}

/// minimal FDT instance XML as flute's parser accepts it
pub fn fdt_xml(expires: &str, files: &[(String, usize)], e: u16, b: u16) -> Vec<u8> {
    let mut s = String::from("<?xml version=\"1.0\" encoding=\"UTF-8\"?>\n");
    s.push_str(&format!(
        "<FDT-Instance xmlns=\"urn:IETF:metadata:2005:FLUTE:FDT\" Expires=\"{}\" FEC-OTI-FEC-Encoding-ID=\"0\" FEC-OTI-Maximum-Source-Block-Length=\"{}\" FEC-OTI-Encoding-Symbol-Length=\"{}\">\n",
        expires, b, e
    ));
    for (toi, len) in files {
        s.push_str(&format!(
            "  <File Content-Location=\"file:///x{}\" TOI=\"{}\" Content-Length=\"{}\" Transfer-Length=\"{}\"/>\n",
            toi.replace(|c: char| !c.is_ascii_alphanumeric(), "_"),
            toi,
            len,
            len
        ));
    }
    s.push_str("</FDT-Instance>\n");
    s.into_bytes()
}

fn ntp_secs(us: i64) -> u64 {
    (us / SEC) as u64 + 2208988800
}

/// all packets of one object (No-Code, symbols of `e` bytes, blocks of `b` symbols), hook-built
pub fn obj_pkts(toi: u128, len: usize, e: u16, b: u16, inband_fti: bool, close_last: bool) -> Vec<Vec<u8>> {
    let (al, asm, nl, n) = hk::block_partitioning(b as u64, len as u64, e as u64);
    let mut out = Vec::new();
    let mut off = 0usize;
    for sbn in 0..n {
        let k = if sbn < nl { al } else { asm };
        for esi in 0..k {
            let en = (off + e as usize).min(len);
            let last = sbn == n - 1 && esi == k - 1;
            out.push(mk_pkt(toi, None, e, b, inband_fti, len as u64, sbn as u32, esi as u32, vec![0xA5; en - off], close_last && last, None));
            off = en;
        }
    }
    out
}

// ------------------------------------------------------------------------------------------------
// mutations

fn mutate(rng: &mut Rng, d: &[u8], other: &[u8]) -> Vec<u8> {
    let mut v = d.to_vec();
    match rng.below(8) {
        0 | 1 => {
            // bit flip, biased to the header region
            if !v.is_empty() {
                let lim = if rng.chance(3, 4) { v.len().min(48) } else { v.len() };
                let i = rng.below(lim as u64) as usize;
                v[i] ^= 1 << rng.below(8);
            }
        }
        2 => {
            let n = rng.below(v.len() as u64 + 1) as usize;
            v.truncate(n);
        }
        3 => {
            if !v.is_empty() {
                let lim = v.len().min(48);
                let i = rng.below(lim as u64) as usize;
                v[i] = rng.next() as u8;
            }
        }
        4 => {
            let n = rng.range(1, 40) as usize;
            v.extend(rng.bytes(n));
        }
        5 => {
            // splice: head of this one, tail of another
            let i = rng.below(v.len() as u64 + 1) as usize;
            let j = rng.below(other.len() as u64 + 1) as usize;
            v.truncate(i);
            v.extend_from_slice(&other[j..]);
        }
        6 => {
            let n = rng.below(64) as usize;
            v = rng.bytes(n);
        }
        _ => {
            // several flips
            for _ in 0..rng.range(2, 6) {
                if !v.is_empty() {
                    let i = rng.below(v.len().min(64) as u64) as usize;
                    v[i] ^= 1 << rng.below(8);
                }
            }
        }
    }
    v
}

fn replace_attr(xml: &[u8], attr: &str, val: Option<&str>, nth: usize) -> Vec<u8> {
    // rewrite the nth occurrence of ` attr="..."`
    let s = String::from_utf8_lossy(xml).to_string();
    let pat = format!(" {}=\"", attr);
    let mut start = 0;
    let mut pos = None;
    for _ in 0..=nth {
        match s[start..].find(&pat) {
            Some(p) => {
                pos = Some(start + p);
                start = start + p + pat.len();
            }
            None => return xml.to_vec(),
        }
    }
    let p = pos.unwrap();
    let vstart = p + pat.len();
    let vend = vstart + s[vstart..].find('"').unwrap_or(0);
    let mut out = String::new();
    out.push_str(&s[..p]);
    if let Some(v) = val {
        out.push_str(&format!(" {}=\"{}\"", attr, v));
    }
    out.push_str(&s[vend + 1..]);
    out.into_bytes()
}

// ------------------------------------------------------------------------------------------------

pub fn run(ctx: &mut Ctx, eng: &mut dyn Engine) {
    let thorough = ctx.tier_thorough;
    let mut rng = Rng::new(ctx.seed);
    ctx.rule = "cases = receiver sessions (real Sender packets + hook-built packets) under a receiver clock = sender clock + skew; \
        every call compared with the Lean model (result, nb_objects, nb_objects_error, writer callbacks); oracles C19 (writer creation only through an \
        unexpired instance on the estimated sender clock, skewed run == unskewed run, expected complete/silent outcomes), C17 (error list bound, heap against \
        configured limits, cleanup releases), C04 (no panic, call time, rejected datagram leaves state, fresh session delivered); \
        non-trivial = distinct (skew, SCT, check, duration, lateness, order) expiry cases with the check enabled + distinct registry/cleanup/malformed scenarios"
        .to_string();
    let mut g = G { ctx, eng, sh: Shadow::default(), done: None };

    family_expiry(&mut g, &mut rng, thorough);
    family_second_instance(&mut g, &mut rng, thorough);
    family_registries(&mut g, &mut rng, thorough);
    family_memory(&mut g, &mut rng, thorough);
    family_review(&mut g, &mut rng, thorough);
    family_malformed(&mut g, &mut rng, thorough);
    family_xml(&mut g, &mut rng, thorough);
    family_multi(&mut g, &mut rng, thorough);
    family_fuzz(&mut g, &mut rng, thorough);
}

/// the datagram with its TSI field rewritten (hook-built packets: 16-bit TSI at bytes 8..10); `None` when the
/// real parser does not read the wanted TSI from the result
fn retsi(d: &[u8], tsi: u16) -> Option<Vec<u8>> {
    if d.len() < 12 {
        return None;
    }
    let mut x = d.to_vec();
    x[8] = (tsi >> 8) as u8;
    x[9] = (tsi & 0xFF) as u8;
    match guarded(|| parse_info(&x)) {
        Ok(Ok(i)) if i.tsi == tsi as u64 => Some(x),
        _ => None,
    }
}

/// MultiReceiver (review batch 4, row 6): several sessions on one endpoint, interleaved; unparsable datagrams;
/// close-session packets for a live and for an unknown session; cleanup.  Every call is COMPARED with agent tsi's
/// `MultiRecv.pushBytes / step` over `recvMachine (Full.iface params0)` (driver ops mcfg / mpkt / mcleanup).
fn family_multi(g: &mut G, rng: &mut Rng, thorough: bool) {
    let far = ntp_secs(T0 + 300_000 * SEC).to_string();
    let rounds = if thorough { 12 } else { 3 };
    for k in 0..rounds {
        let once = k % 2 == 0;
        g.ctx.case(&format!("multi-sessions-{}", k));
        g.eng.reset();
        g.ctx.nontrivial(&format!("multi-sessions {}", k));
        g.ctx.count("multi:sessions");
        g.ctx.step(g.eng, &format!("recv mcfg 2 65536 {} 1", once as u8));
        let tsis: Vec<u16> = vec![1, 2, 7];
        let mut shadows: std::collections::HashMap<u16, Shadow> = std::collections::HashMap::new();
        // per session: one FDT instance listing TOI 5 (and 6), then the objects; packets of the sessions interleaved
        let mut queue: Vec<(u16, Vec<u8>)> = Vec::new();
        for t in &tsis {
            let len5 = rng.range(20, 90) as usize;
            let len6 = rng.range(1, 60) as usize;
            let f = fdt_xml(&far, &[("5".to_string(), len5), ("6".to_string(), len6)], 16, 4);
            let mut mine: Vec<Vec<u8>> = fdt_pkts(&f, 1 + *t as u32, 64, None);
            mine.extend(obj_pkts(5, len5, 16, 4, false, false));
            mine.extend(obj_pkts(6, len6, 16, 4, k % 3 == 0, false));
            for d in mine {
                if let Some(x) = retsi(&d, *t) {
                    queue.push((*t, x));
                }
            }
        }
        // interleave: stable shuffle by a random key per packet that keeps the per-session order
        let mut idx: std::collections::HashMap<u16, usize> = std::collections::HashMap::new();
        let mut per: std::collections::HashMap<u16, Vec<Vec<u8>>> = std::collections::HashMap::new();
        for (t, d) in queue {
            per.entry(t).or_default().push(d);
        }
        let total: usize = per.values().map(|v| v.len()).sum();
        let mut now = T0;
        let mut sent = 0usize;
        while sent < total {
            let t = tsis[rng.below(tsis.len() as u64) as usize];
            let i = *idx.get(&t).unwrap_or(&0);
            let v = per.get(&t).unwrap();
            if i >= v.len() {
                continue;
            }
            idx.insert(t, i + 1);
            sent += 1;
            now += 1000;
            let d = v[i].clone();
            // the XML parser's answer for the model: the shadow reassembly of THIS session
            let mut ans = "X".to_string();
            if let Ok(Ok(info)) = guarded(|| parse_info(&d)) {
                if info.toi == 0 {
                    if let Some(id) = info.fdt_id {
                        let sh = shadows.entry(t).or_insert_with(|| Shadow { once, obj_to: false, ..Default::default() });
                        let done = sh.feed(&info, now as i128);
                        if let Some(inst) = sh.inst.get(&id) {
                            if done {
                                ans = ans_str(inst);
                            }
                        }
                    }
                }
            }
            let obs = g.ctx.step(g.eng, &format!("recv mpkt {} {} {}", now, hex(&d), ans));
            let _ = obs;
            // now and then: garbage, a close-session packet for a session that does not exist, the half-way
            // close of session 2 (its objects still in flight are dropped: writer error callbacks), a cleanup
            if sent % 7 == 3 {
                let n = rng.range(0, 20) as usize;
                let junk = rng.bytes(n);
                g.ctx.step(g.eng, &format!("recv mpkt {} {} X", now, hex(&junk)));
            }
            if sent == total / 3 {
                if let Some(c) = retsi(&hk::new_alc_pkt_close_session(&0u128, TSI), 9) {
                    g.ctx.step(g.eng, &format!("recv mpkt {} {} X", now, hex(&c)));
                }
            }
            if sent == total / 2 {
                if let Some(c) = retsi(&hk::new_alc_pkt_close_session(&0u128, TSI), 2) {
                    g.ctx.step(g.eng, &format!("recv mpkt {} {} X", now, hex(&c)));
                }
            }
            if sent % 11 == 5 {
                g.ctx.step(g.eng, &format!("recv mcleanup {}", now));
            }
        }
        g.ctx.step(g.eng, &format!("recv mcleanup {}", now + SEC));
        g.ctx.end_case(g.eng);
    }
}

const SKEWS: [i64; 13] = [
    0,
    1,
    -1,
    60,
    -60,
    3600,
    -3600,
    86400,
    -86400,
    365 * 86400,
    -365 * 86400,
    40 * 365 * 86400,
    -40 * 365 * 86400,
];

/// C19: skew × SCT × check × duration × lateness × order
fn family_expiry(g: &mut G, rng: &mut Rng, thorough: bool) {
    let durs: [u64; 3] = [5, 30, 3600];
    let mut n = 0u32;
    for (si, skew_s) in SKEWS.iter().enumerate() {
        for sct in [true, false] {
            for check in [true, false] {
                for dur in durs {
                    for xi in 0..7 {
                        for order in 0..3u8 {
                            // quick tier: a seeded 1/6 sample of the grid (every skew/SCT/check combination stays covered)
                            if !thorough && !rng.chance(1, 8) {
                                continue;
                            }
                            let x: i64 = match xi {
                                0 => -(dur as i64) + 1,
                                1 => -3,
                                2 => 3,
                                3 => 3600,
                                // inside the excluded +-2 s band: no oracle verdict, but the comparison with the model is exact
                                4 => 0,
                                5 => 1,
                                _ => -1,
                            };
                            n += 1;
                            expiry_case(g, rng, n, si, *skew_s * SEC, sct, check, dur, x, order);
                        }
                    }
                }
            }
        }
    }
}

#[allow(clippy::too_many_arguments)]
fn expiry_case(g: &mut G, rng: &mut Rng, n: u32, si: usize, skew: i64, sct: bool, check: bool, dur: u64, x: i64, order: u8) {
    let inband = rng.bool();
    let once = rng.chance(3, 4);
    let e = *rng.pick(&[16u16, 64]);
    let nobj = rng.range(1, 3) as usize;
    let lens: Vec<usize> = (0..nobj).map(|_| rng.range(1, 5 * e as u64) as usize).collect();
    let (r1, r2, r3) = (rng.below(1000) as u32, 1 + rng.below(1000) as u128, rng.below(5) as u8);
    let s = session(rng, T0, sct, dur, r1, r2, &lens, e, 8, inband, r3);
    let id = format!("exp-{}-skew{}-sct{}-chk{}-dur{}-x{}-ord{}", n, SKEWS[si], sct as u8, check as u8, dur, x, order);
    g.cfg(&id, rng.below(3) as usize, false, true, 1 << 20, once, check, skew, sct, false);
    g.ctx.count(&format!("expiry:order{}", order));
    g.ctx.count(if sct { "expiry:sct" } else { "expiry:no-sct" });
    g.ctx.count(if check { "expiry:check-on" } else { "expiry:check-off" });
    if check {
        g.ctx.nontrivial(&format!("{} {} {} {} {}", SKEWS[si], sct, dur, x, order));
    }
    if n <= 3 {
        g.ctx.sample(format!("case {}: {} packets, objects {:?}", id, s.pkts.len(), s.objs));
    }
    let late = T0 + dur as i64 * SEC + x * SEC;
    let fdt: Vec<&(Vec<u8>, i64)> = s.pkts.iter().filter(|p| is_fdt(&p.0)).collect();
    let obj: Vec<&(Vec<u8>, i64)> = s.pkts.iter().filter(|p| !is_fdt(&p.0)).collect();
    let exp = T0 + dur as i64 * SEC;
    let band = 2 * SEC;
    // what the property demands (None = inside the excluded +-2 s band)
    let mut verdict: Option<bool>;
    match order {
        0 => {
            for p in &fdt {
                g.push(&p.0, p.1 + skew);
            }
            g.cleanup(T0 + SEC / 2 + skew, false);
            g.probe();
            for (i, p) in obj.iter().enumerate() {
                g.push(&p.0, late + i as i64 * 1000 + skew);
            }
            g.cleanup(late + SEC + skew, false);
            let est = if sct { late } else { late + skew };
            verdict = if est + obj.len() as i64 * 1000 < exp - band { Some(true) } else if est > exp + band { Some(false) } else { None };
        }
        1 => {
            for p in &obj {
                g.push(&p.0, p.1 + skew);
            }
            for (i, p) in fdt.iter().enumerate() {
                g.push(&p.0, late + i as i64 * 1000 + skew);
            }
            g.cleanup(late + SEC + skew, false);
            // with SCT the estimate at completion is the sender's own stamp (< Expires)
            let est = if sct { T0 + SEC } else { late + skew + fdt.len() as i64 * 1000 };
            verdict = if est < exp - band { Some(true) } else if est > exp + band { Some(false) } else { None };
            // a close-object flag processed before the FDT interrupts the object (documented behaviour):
            // delivery is then not demanded
            if verdict == Some(true) {
                verdict = None;
            }
        }
        _ => {
            for p in &fdt {
                g.push(&p.0, p.1 + skew);
            }
            let mut seen = std::collections::HashSet::new();
            let mut rest = Vec::new();
            for p in &obj {
                if seen.insert(toi_of(&p.0)) {
                    g.push(&p.0, p.1 + skew);
                } else {
                    rest.push(*p);
                }
            }
            for (i, p) in rest.iter().enumerate() {
                g.push(&p.0, late + i as i64 * 1000 + skew);
            }
            g.cleanup(late + SEC + skew, false);
            let est = if sct { T0 + SEC } else { T0 + SEC + skew };
            verdict = if est < exp - band { Some(true) } else if est - SEC > exp + band { Some(false) } else { None };
        }
    }
    if !check {
        verdict = if order == 1 { None } else { Some(true) };
    }
    for (toi, len) in &s.objs {
        match verdict {
            Some(true) => g.expect_c(*toi, *len, "C19"),
            Some(false) => g.expect_s(*toi, "C19"),
            None => {}
        }
    }
    g.end();
}

/// C19: an object announced by an expired instance AND later by an unexpired one (rewritten Expires)
fn family_second_instance(g: &mut G, rng: &mut Rng, thorough: bool) {
    let n = if thorough { 120 } else { 24 };
    for k in 0..n {
        let sct = rng.bool();
        let skew = *rng.pick(&SKEWS) * SEC;
        let skew = if sct { skew } else { 0 };
        let dur = 30u64;
        let e = 32u16;
        let lens = [rng.range(1, 100) as usize, rng.range(1, 100) as usize];
        let inband = rng.bool();
        let s = session(rng, T0, sct, dur, 100, 50, &lens, e, 8, inband, 255);
        g.cfg(&format!("second-{}-sct{}-skew{}", k, sct as u8, skew / SEC), 0, false, true, 1 << 20, true, true, skew, sct, false);
        g.ctx.nontrivial(&format!("second {} {} {}", sct, skew, inband));
        g.ctx.count("expiry:second-instance");
        let late = T0 + (dur as i64 + 3600) * SEC;
        let mut xml = Vec::new();
        for p in s.pkts.iter().filter(|p| is_fdt(&p.0)) {
            g.push(&p.0, p.1 + skew);
        }
        if let Some(i) = g.sh.inst.get(&100) {
            xml = i.xml.clone();
        }
        // objects arrive an hour after expiry: silent.  (no close-object flag on these hook-built copies)
        for (j, (toi, len)) in s.objs.iter().enumerate() {
            for (i, p) in obj_pkts(*toi, *len, e, 8, inband, false).iter().enumerate() {
                g.push(p, late + (j * 100 + i) as i64 * 1000 + skew);
            }
        }
        for (toi, _) in &s.objs {
            g.expect_s(*toi, "C19");
        }
        // same instance content, fresh id, Expires in the future of the sender clock
        let t2 = late + 10 * SEC;
        let xml2 = replace_attr(&xml, "Expires", Some(&ntp_secs(t2 + 1000 * SEC).to_string()), 0);
        for (i, p) in fdt_pkts(&xml2, 101, 64, if sct { Some(t2) } else { None }).iter().enumerate() {
            g.push(p, t2 + i as i64 * 1000 + skew);
        }
        for (toi, len) in &s.objs {
            // the "silent" expectation above is a snapshot; from here on delivery is demanded
            g.ctx.step(g.eng, &format!("recv expect {} c {} C19", toi, len));
        }
        // later instances move the expiry of the (now completed) objects: update_cache_control
        let t3 = t2 + 20 * SEC;
        let xml3 = replace_attr(&xml, "Expires", Some(&ntp_secs(t2 + 9000 * SEC).to_string()), 0);
        for (i, p) in fdt_pkts(&xml3, 102, 64, if sct { Some(t3) } else { None }).iter().enumerate() {
            g.push(p, t3 + i as i64 * 1000 + skew);
        }
        // exactly one second later: not "more than a second", no update
        let xml4 = replace_attr(&xml, "Expires", Some(&ntp_secs(t2 + 9001 * SEC).to_string()), 0);
        for (i, p) in fdt_pkts(&xml4, 103, 64, if sct { Some(t3 + SEC) } else { None }).iter().enumerate() {
            g.push(p, t3 + SEC + i as i64 * 1000 + skew);
        }
        g.cleanup(t3 + 2 * SEC + skew, false);
        g.end();
    }
}

/// registries: error list + gc, completed ⊆ latest FDT, fdt_current cap, receive-once
fn family_registries(g: &mut G, rng: &mut Rng, thorough: bool) {
    let far = ntp_secs(T0 + 100_000 * SEC).to_string();
    // (a) objects driven into error beyond max_objects_error
    for (k, me) in [0usize, 1, 3, 8].iter().enumerate() {
        for once in [true, false] {
            g.cfg(&format!("errors-max{}-once{}", me, once as u8), *me, false, true, 1 << 16, once, true, 0, false, false);
            g.ctx.nontrivial(&format!("errors {} {}", me, once));
            g.ctx.count("registry:errors");
            let n = if thorough { 60 } else { 25 };
            // Failures happen in ASCENDING TOI order: the property (C17) bounds the LENGTH of the list; WHICH failed TOI
            // is forgotten is a policy (the code and the model: the smallest TOI, `pop_first`).  With ascending
            // failures "smallest first" and "oldest first" forget the same TOI, so a policy-preserving change of the
            // container does not turn the correspondence red; any other eviction order still does.
            let _ = rng.bool();
            let order: Vec<u128> = (0..n).map(|i| 500 + i + k as u128).collect();
            for toi in &order {
                // in-band FTI announces 3 symbols; the first one carries the close-object flag
                let p = mk_pkt(*toi, None, 16, 8, true, 48, 0, 0, vec![1; 16], true, None);
                g.push(&p, T0);
            }
            for toi in &order {
                // objects in the error list ignore everything but (SBN 0, ESI 0)
                let p = mk_pkt(*toi, None, 16, 8, true, 48, 0, 1, vec![1; 16], false, None);
                g.push(&p, T0 + 1);
            }
            for toi in order.iter().take(6) {
                let p = mk_pkt(*toi, None, 16, 8, true, 48, 0, 0, vec![1; 16], false, None);
                g.push(&p, T0 + 2);
            }
            g.cleanup(T0 + 3, false);
            g.end();
        }
    }
    // (b) completed ⊆ TOIs of the latest FDT; receive-once; fdt_current holds 10 instances
    for once in [true, false] {
        g.cfg(&format!("completed-gc-once{}", once as u8), 2, false, true, 1 << 16, once, true, 0, false, false);
        g.ctx.nontrivial(&format!("completed-gc {}", once));
        g.ctx.count("registry:completed");
        let fa = fdt_xml(&far, &[("1".to_string(), 40), ("2".to_string(), 40)], 16, 8);
        for p in fdt_pkts(&fa, 1, 64, None) {
            g.push(&p, T0);
        }
        for toi in [1u128, 2] {
            for p in obj_pkts(toi, 40, 16, 8, false, false) {
                g.push(&p, T0 + 1);
            }
        }
        // re-sent while listed: ignored under receive-once, restarted on (0,0) otherwise
        for p in obj_pkts(1, 40, 16, 8, false, false) {
            g.push(&p, T0 + 2);
        }
        // instance B lists only TOI 2 (and 3): TOI 1 leaves the completed registry
        let fb = fdt_xml(&far, &[("2".to_string(), 40), ("3".to_string(), 40)], 16, 8);
        for p in fdt_pkts(&fb, 2, 64, None) {
            g.push(&p, T0 + 3);
        }
        for p in obj_pkts(1, 40, 16, 8, false, false) {
            g.push(&p, T0 + 4);
        }
        for p in obj_pkts(2, 40, 16, 8, false, false) {
            g.push(&p, T0 + 5);
        }
        g.cleanup(T0 + 6, false);
        g.end();
    }
    {
        g.cfg("fdt-current-cap", 0, false, true, 1 << 16, true, true, 0, false, false);
        g.ctx.nontrivial("fdt-current-cap");
        g.ctx.count("registry:fdt-current");
        for id in 0..14u32 {
            // distinct Expires: the ExpiresAtHint of `new_object_writer` tells which instance was attached
            let f = fdt_xml(&ntp_secs(T0 + (100_000 + id as i64) * SEC).to_string(), &[((100 + id).to_string(), 20)], 16, 8);
            for p in fdt_pkts(&f, id, 64, None) {
                g.push(&p, T0 + id as i64);
            }
        }
        // instance 0..3 were rotated out (cap 10): their TOIs find no FDT; 4..13 do
        g.probe();
        for id in [0u32, 3, 4, 13] {
            // first symbol only: the object stays alive, the probe shows the instance it is attached to
            for p in obj_pkts(100 + id as u128, 20, 16, 8, false, false).iter().take(1) {
                g.push(p, T0 + 100);
            }
        }
        g.probe();
        for id in [0u32, 3, 4, 13] {
            for p in obj_pkts(100 + id as u128, 20, 16, 8, false, false).iter().skip(1) {
                g.push(p, T0 + 100);
            }
        }
        g.expect_s(100, "C17:fdt-current-over-10");
        g.expect_c(113, 20, "C17:fdt-current-lost-instance");
        // a rotated-out id may be received again
        let f = fdt_xml(&far, &[("100".to_string(), 20)], 16, 8);
        for p in fdt_pkts(&f, 0, 64, None) {
            g.push(&p, T0 + 200);
        }
        g.expect_c(100, 20, "C17:rotated-out-id-not-received-again");
        g.end();
    }
    // (c) FDT instance states: Expires garbage (always expired), error, already received id
    for check in [true, false] {
        g.cfg(&format!("fdt-states-chk{}", check as u8), 0, false, true, 1 << 16, true, check, 0, false, false);
        g.ctx.nontrivial(&format!("fdt-states {}", check));
        g.ctx.count("registry:fdt-states");
        for (id, expv) in ["abc", "", "-5", "4294967296", "+3999999999", "00003999999999", "1", " 3999999999"].iter().enumerate() {
            let f = fdt_xml(expv, &[((200 + id).to_string(), 20)], 16, 8);
            for p in fdt_pkts(&f, id as u32, 64, None) {
                g.push(&p, T0);
            }
            for p in obj_pkts(200 + id as u128, 20, 16, 8, false, false) {
                g.push(&p, T0 + 1);
            }
            // a packet of an instance that is Expired / already current
            for p in fdt_pkts(&f, id as u32, 64, None).iter().take(1) {
                g.push(p, T0 + 2);
            }
        }
        g.cleanup(T0 + 3, false);
        // not XML at all: FDT in error state, later packets of that id ignored until cleanup
        let bad = b"<FDT-Instance Expires=".to_vec();
        for p in fdt_pkts(&bad, 50, 8, None) {
            g.push(&p, T0 + 4);
        }
        for p in fdt_pkts(&bad, 50, 8, None).iter().take(1) {
            g.push(p, T0 + 5);
        }
        g.cleanup(T0 + 6, false);
        for p in fdt_pkts(&bad, 50, 8, None).iter().take(1) {
            g.push(p, T0 + 7);
        }
        // TOI 0 without EXT_FDT: error unless a close flag is set.  The hook refuses to build such a
        // packet, so the 16-bit TOI field (bytes 10..12 of this header layout) is patched to 0.
        for close_object in [false, true] {
            let mut p = mk_pkt(7, None, 16, 8, true, 16, 0, 0, vec![0; 16], close_object, None);
            p[10] = 0;
            p[11] = 0;
            match parse_info(&p) {
                Ok(i) if i.toi == 0 && i.fdt_id.is_none() && i.tsi == TSI => {
                    g.push(&p, T0 + 8);
                    g.ctx.count("registry:toi0-without-ext-fdt");
                }
                _ => g.ctx.count("registry:toi0-patch-failed"),
            }
        }
        // the sender's close-session packet (A flag, TOI 0, no EXT_FDT)
        let p = hk::new_alc_pkt_close_session(&0u128, TSI);
        g.push(&p, T0 + 8);
        g.end();
    }
}

/// C17: many TOIs without FDT, many unfinished FDT instances, time-outs
fn family_memory(g: &mut G, rng: &mut Rng, thorough: bool) {
    let n: u128 = if thorough { 10_000 } else { 1500 };
    for inband in [false, true] {
        for mc in [1024usize, 65536] {
            g.cfg(&format!("many-tois-inband{}-cache{}", inband as u8, mc), 4, true, true, mc, true, true, 0, false, true);
            g.ctx.nontrivial(&format!("many-tois {} {}", inband, mc));
            g.ctx.count("memory:many-tois");
            for i in 0..n {
                let p = mk_pkt(10_000 + i, None, 32, 8, inband, 96, 0, (i % 3) as u32, rng.bytes(32), false, None);
                g.push(&p, T0 + i as i64);
            }
            // (no `isexp 0` here: with a 1 ms session time-out "not yet expired" races with the machine load;
            //  the not-expired answer is covered under `no-timeouts` / 1 h time-outs, where it is deterministic)
            g.cleanup(T0 + n as i64, true);
            g.isexp(true);
            // life goes on after the cleanup
            let p = mk_pkt(10_000, None, 32, 8, inband, 96, 0, 0, rng.bytes(32), false, None);
            g.push(&p, T0 + n as i64 + 1);
            g.cleanup(T0 + n as i64 + 2, true);
            g.end();
        }
    }
    // D16: FDT instance ids that never complete
    let m: u32 = if thorough { 10_000 } else { 3000 };
    g.cfg("unfinished-fdt-ids", 0, true, true, 1 << 16, true, true, 0, false, true);
    g.ctx.nontrivial("unfinished-fdt-ids");
    g.ctx.count("memory:unfinished-fdt");
    for id in 0..m {
        // 2 symbols announced, only the first one ever arrives
        let p = mk_pkt(0, Some(id), 64, 64, true, 128, 0, 0, rng.bytes(64), false, None);
        g.push(&p, T0 + id as i64);
    }
    g.cleanup(T0 + m as i64, true);
    g.end();
    // no time-outs configured: cleanup keeps everything (documented)
    g.cfg("no-timeouts", 0, false, false, 1 << 16, true, true, 0, false, false);
    g.ctx.count("memory:no-timeouts");
    for i in 0..50u128 {
        let p = mk_pkt(10_000 + i, None, 32, 8, false, 96, 0, 0, rng.bytes(32), false, None);
        g.push(&p, T0);
    }
    g.cleanup(T0 + 1, false);
    g.isexp(false);
    g.end();
}

fn fresh_session(g: &mut G, rng: &mut Rng, t: i64, k: u32, opaque: bool) {
    let lens = [rng.range(1, 200) as usize, rng.range(1, 200) as usize];
    let inband = rng.bool();
    let s = session(rng, t, true, 3600, 500_000 + k, 1_000_000 + 10 * k as u128, &lens, 32, 8, inband, 255);
    for p in &s.pkts {
        if opaque {
            g.fz(&p.0, p.1);
        } else {
            g.push(&p.0, p.1);
        }
    }
    for (toi, len) in &s.objs {
        g.expect_c(*toi, *len, "C04");
    }
}

/// C04 (modelled part): datagrams the parser rejects leave the state untouched; a fresh session is delivered
fn family_malformed(g: &mut G, rng: &mut Rng, thorough: bool) {
    // all byte strings of length <= 2, a slice of length 3
    g.cfg("short-datagrams", 0, false, true, 1 << 16, true, true, 0, false, false);
    g.ctx.nontrivial("short-datagrams");
    g.push_mutant(&[], T0);
    for a in 0..=255u8 {
        g.push_mutant(&[a], T0);
    }
    for a in 0..=255u8 {
        for b in 0..=255u8 {
            g.push_mutant(&[a, b], T0);
        }
    }
    let step = if thorough { 16 } else { 512 };
    let mut v: u32 = rng.below(step) as u32;
    while v < (1 << 24) {
        g.push_mutant(&[(v >> 16) as u8, (v >> 8) as u8, v as u8], T0);
        v += step as u32;
    }
    fresh_session(g, rng, T0, 0, false);
    g.end();
    let cases = if thorough { 200 } else { 40 };
    for k in 0..cases {
        let lens = [rng.range(1, 300) as usize, rng.range(0, 300) as usize + 1];
        let inband = rng.bool();
        let (r0, r1, r2, r3) = (rng.bool(), rng.below(1 << 20) as u32, 1 + rng.below(5000) as u128, rng.below(5) as u8);
        let s = session(rng, T0, r0, 3600, r1, r2, &lens, 32, 8, inband, r3);
        g.cfg(&format!("malformed-{}", k), rng.below(3) as usize, false, true, 1 << 16, true, true, 0, false, false);
        g.ctx.nontrivial(&format!("malformed {}", k));
        let mut any = false;
        for (i, p) in s.pkts.iter().enumerate() {
            let other = &s.pkts[rng.below(s.pkts.len() as u64) as usize].0;
            for _ in 0..3 {
                let m = mutate(rng, &p.0, other);
                any |= g.push_mutant(&m, p.1);
            }
            // the valid packets of the session are interleaved with the rejected ones
            if rng.chance(2, 3) || i == 0 {
                g.push(&p.0, p.1);
            }
        }
        let _ = any;
        fresh_session(g, rng, T0 + 10 * SEC, k + 1, false);
        g.end();
    }
}

/// C04 (modelled): FDT XML attribute rewriting, each followed by a fresh valid session
fn family_xml(g: &mut G, rng: &mut Rng, thorough: bool) {
    let rounds = if thorough { 6 } else { 2 };
    let exp_vals: [Option<&str>; 9] = [None, Some(""), Some("abc"), Some("-1"), Some("99999999999999999999999"), Some("0"), Some("4294967295"), Some("+3999999999"), Some("3999999999 ")];
    let toi_vals: [Option<&str>; 9] = [None, Some(""), Some("abc"), Some("-1"), Some("0"), Some("01"), Some("+1"), Some("340282366920938463463374607431768211456"), Some("1 ")];
    let mut k = 0u32;
    for _ in 0..rounds {
        let lens = [rng.range(1, 100) as usize, rng.range(1, 100) as usize];
        let inband = rng.bool();
        let r3 = rng.below(5) as u8;
        let s = session(rng, T0, true, 3600, 7, 1, &lens, 32, 8, inband, r3);
        // the genuine XML of the session's FDT
        let mut sh = Shadow::default();
        for p in s.pkts.iter().filter(|p| is_fdt(&p.0)) {
            if let Ok(i) = parse_info(&p.0) {
                if sh.feed(&i, p.1 as i128) {
                    break;
                }
            }
        }
        let xml = match sh.inst.get(&7) {
            Some(i) if i.complete => i.xml.clone(),
            _ => continue,
        };
        let mut variants: Vec<(String, Vec<u8>)> = Vec::new();
        for (j, v) in exp_vals.iter().enumerate() {
            variants.push((format!("Expires#{}", j), replace_attr(&xml, "Expires", *v, 0)));
        }
        for (j, v) in toi_vals.iter().enumerate() {
            variants.push((format!("TOI#{}", j), replace_attr(&xml, "TOI", *v, 0)));
        }
        for a in ["Content-Location", "Content-Length", "Transfer-Length", "FEC-OTI-Encoding-Symbol-Length", "FEC-OTI-Maximum-Source-Block-Length", "FEC-OTI-FEC-Encoding-ID", "Content-MD5", "xmlns"] {
            variants.push((format!("drop-{}", a), replace_attr(&xml, a, None, 0)));
        }
        variants.push(("Transfer-Length=0".into(), replace_attr(&xml, "Transfer-Length", Some("0"), 0)));
        variants.push(("Transfer-Length=huge".into(), replace_attr(&xml, "Transfer-Length", Some("18446744073709551615"), 0)));
        variants.push(("Symbol-Length=garbage".into(), replace_attr(&xml, "FEC-OTI-Encoding-Symbol-Length", Some("x"), 0)));
        variants.push(("truncated".into(), xml[..xml.len() / 2].to_vec()));
        let mut nonutf = xml.clone();
        if let Some(p) = nonutf.iter().position(|b| *b == b'f') {
            nonutf[p] = 0xFF;
        }
        variants.push(("non-utf8".into(), nonutf));
        variants.push(("empty-file-list".into(), fdt_xml("3999999999", &[], 32, 8)));
        for (name, x) in variants {
            k += 1;
            g.cfg(&format!("xml-{}-{}", k, name), 1, false, true, 1 << 16, true, true, 0, true, false);
            g.ctx.nontrivial(&format!("xml {} {}", name, inband));
            g.ctx.count("malformed:xml-rewrite");
            for (i, p) in fdt_pkts(&x, 9, 48, Some(T0)).iter().enumerate() {
                g.push(p, T0 + i as i64);
            }
            for p in s.pkts.iter().filter(|p| !is_fdt(&p.0)) {
                g.push(&p.0, p.1);
            }
            g.cleanup(T0 + SEC, false);
            fresh_session(g, rng, T0 + 10 * SEC, k, false);
            g.end();
        }
    }
}

/// C04 (opaque stream, oracle only): every mutant is pushed, accepted or not
fn family_fuzz(g: &mut G, rng: &mut Rng, thorough: bool) {
    let cases = if thorough { 600 } else { 80 };
    for k in 0..cases {
        let lens = [rng.range(0, 400) as usize, rng.range(1, 2000) as usize];
        let inband = rng.bool();
        let e = *rng.pick(&[16u16, 32, 100]);
        let (r0, r1, r2, r3, r4) = (rng.bool(), rng.below(1 << 20) as u32, 1 + rng.below(5000) as u128, rng.below(5) as u8, *rng.pick(&[2u16, 8, 64]));
        let s = session(rng, T0, r0, 3600, r1, r2, &lens, e, r4, inband, r3);
        g.cfg(&format!("fuzz-{}", k), rng.below(3) as usize, false, true, *rng.pick(&[1024usize, 1 << 16]), rng.bool(), rng.bool(), 0, false, false);
        g.ctx.count("malformed:opaque-fuzz-case");
        for p in &s.pkts {
            let other = &s.pkts[rng.below(s.pkts.len() as u64) as usize].0;
            let m = if rng.chance(1, 2) { mutate(rng, &p.0, other) } else { p.0.clone() };
            g.fz(&m, p.1);
            if rng.chance(1, 4) {
                let m2 = mutate(rng, &m, other);
                g.fz(&m2, p.1);
            }
        }
        g.ctx.step(g.eng, &format!("recv fzc {}", T0 + SEC));
        fresh_session(g, rng, T0 + 10 * SEC, k, true);
        g.ctx.end_case(g.eng);
    }
}

// ------------------------------------------------------------------------------------------------
// cases added after the independent review / for the seeded changes

/// EXT_TIME rewritten to carry SCT-High only (HEL 2, use bits 0x8000): legal, whole NTP seconds
pub fn sct_high_only(d: &[u8]) -> Option<Vec<u8>> {
    let hdr = d[2] as usize * 4;
    let mut i = 12;
    while i + 12 <= hdr.min(d.len()) {
        if d[i] == 2 && d[i + 1] == 3 && d[i + 2] == 0xC0 && d[i + 3] == 0 {
            let mut v = d[..i].to_vec();
            v.extend_from_slice(&[2, 2, 0x80, 0]);
            v.extend_from_slice(&d[i + 4..i + 8]);
            v.extend_from_slice(&d[i + 12..]);
            v[2] -= 1;
            return Some(v);
        }
        // walk the extensions: HET < 128 variable length (HEL words), >= 128 one word
        i += if d[i] < 128 { (d[i + 1] as usize).max(1) * 4 } else { 4 };
    }
    None
}

fn gzip(data: &[u8]) -> Vec<u8> {
    use std::io::Write;
    let mut e = flate2::write::GzEncoder::new(Vec::new(), flate2::Compression::best());
    e.write_all(data).unwrap();
    e.finish().unwrap()
}

fn family_review(g: &mut G, rng: &mut Rng, thorough: bool) {
    let far = |k: i64| ntp_secs(T0 + (200_000 + k) * SEC).to_string();

    // ---- C19 (seeded C19-1): object announced by a superseded, meanwhile expired instance only
    for (k, skew_s) in [0i64, 3600, -3600].iter().enumerate() {
        for sct in [true, false] {
            let skew = if sct { *skew_s * SEC } else { 0 };
            g.cfg2(&format!("superseded-expired-{}-sct{}", k, sct as u8), 0, false, true, 1 << 16, true, true, skew, sct, 0);
            g.ctx.nontrivial(&format!("superseded-expired {} {}", k, sct));
            g.ctx.count("expiry:superseded-instance");
            let s = |t: i64| if sct { Some(t) } else { None };
            // instance 1 (30 s) lists A = 41; instance 2 (far) lists only B = 42
            let f1 = fdt_xml(&ntp_secs(T0 + 30 * SEC).to_string(), &[("41".to_string(), 40)], 16, 8);
            for (i, p) in fdt_pkts(&f1, 1, 64, s(T0)).iter().enumerate() {
                g.push(p, T0 + i as i64 + skew);
            }
            let f2 = fdt_xml(&far(1), &[("42".to_string(), 40)], 16, 8);
            for (i, p) in fdt_pkts(&f2, 2, 64, s(T0 + SEC)).iter().enumerate() {
                g.push(p, T0 + SEC + i as i64 + skew);
            }
            g.probe();
            // A arrives a minute later: instance 1 has expired on the sender clock, instance 2 does not list it
            for p in obj_pkts(41, 40, 16, 8, false, false) {
                g.push(&p, T0 + 60 * SEC + skew);
            }
            for p in obj_pkts(42, 40, 16, 8, false, false) {
                g.push(&p, T0 + 61 * SEC + skew);
            }
            g.expect_s(41, "C19");
            g.expect_c(42, 40, "C19");
            g.end();
        }
    }

    // ---- C19 (seeded C19-10): an object WAITING for an FDT is attached only through an unexpired instance.  Instance 1
    //      (30 s) lists A and is received alive; A's packets arrive after instance 1 expired and wait; then a newer,
    //      unexpired instance 2 that does NOT list A completes (attach_latest_fdt_to_objects runs): A stays silent.
    //      Control with the expiry check disabled: A is delivered through instance 1.
    for (k, skew_s) in [0i64, 3 * 365 * 86400, -3600].iter().enumerate() {
        for (sct, chk) in [(true, true), (false, true), (true, false)] {
            let skew = if sct { *skew_s * SEC } else { 0 };
            g.cfg2(&format!("waiting-object-newer-fdt-{}-sct{}-chk{}", k, sct as u8, chk as u8), 0, false, true, 1 << 16, true, chk, skew, sct, 0);
            g.ctx.nontrivial(&format!("waiting-object-newer-fdt {} {} {}", k, sct, chk));
            g.ctx.count("expiry:waiting-object-newer-fdt");
            let s = |t: i64| if sct { Some(t) } else { None };
            let f1 = fdt_xml(&ntp_secs(T0 + 30 * SEC).to_string(), &[("43".to_string(), 40)], 16, 8);
            for (i, p) in fdt_pkts(&f1, 1, 64, s(T0)).iter().enumerate() {
                g.push(p, T0 + i as i64 + skew);
            }
            // A arrives a minute later (all packets but the last): instance 1 has expired, A waits
            let a = obj_pkts(43, 40, 16, 8, false, false);
            for p in a.iter().take(a.len() - 1) {
                g.push(p, T0 + 60 * SEC + skew);
            }
            g.probe();
            // the newer instance 2 (far from expiry) lists only B and completes now
            let f2 = fdt_xml(&far(13), &[("44".to_string(), 40)], 16, 8);
            for (i, p) in fdt_pkts(&f2, 2, 64, s(T0 + 61 * SEC)).iter().enumerate() {
                g.push(p, T0 + 61 * SEC + i as i64 + skew);
            }
            g.probe();
            g.push(&a[a.len() - 1], T0 + 62 * SEC + skew);
            for p in obj_pkts(44, 40, 16, 8, false, false) {
                g.push(&p, T0 + 63 * SEC + skew);
            }
            g.cleanup(T0 + 64 * SEC + skew, false);
            g.probe();
            if chk {
                g.expect_s(43, "C19");
            } else {
                g.expect_c(43, 40, "C19:check-disabled-not-delivered");
            }
            g.expect_c(44, 40, "C19");
            g.end();
        }
    }

    // ---- C19 (seeded C19-3, review): EXT_TIME with SCT-High only; SCT on a subset of an instance's
    //      packets; one instance with SCT and one without in the same session, under skew
    for (k, skew_s) in [0i64, 86400, -86400, 40 * 365 * 86400].iter().enumerate() {
        let skew = *skew_s * SEC;
        for mode in 0..4u8 {
            // the shadow receiver comparison needs SCT on every FDT packet: only in mode 0
            g.cfg2(&format!("sct-variants-{}-mode{}", k, mode), 0, false, true, 1 << 16, true, true, skew, mode == 0, 0);
            g.ctx.nontrivial(&format!("sct-variants {} {}", k, mode));
            g.ctx.count("expiry:sct-variants");
            let f1 = fdt_xml(&ntp_secs(T0 + 30 * SEC).to_string(), &[("51".to_string(), 40)], 16, 8);
            let pk = fdt_pkts(&f1, 1, 64, Some(T0));
            let plain = fdt_pkts(&f1, 1, 64, None);
            for (i, p) in pk.iter().enumerate() {
                let d = match mode {
                    0 => sct_high_only(p).unwrap_or_else(|| p.clone()),   // whole-second SCT on every packet
                    1 => if i == 0 { p.clone() } else { plain[i].clone() }, // first packet only
                    2 => if i + 1 == pk.len() { p.clone() } else { plain[i].clone() }, // last packet only
                    _ => plain[i].clone(),                                   // this instance: none
                };
                g.push(&d, T0 + i as i64 + skew);
            }
            // a second instance WITH SCT listing another object, completed while alive
            let f2 = fdt_xml(&ntp_secs(T0 + 30 * SEC).to_string(), &[("52".to_string(), 40)], 16, 8);
            for (i, p) in fdt_pkts(&f2, 2, 64, Some(T0 + SEC)).iter().enumerate() {
                g.push(p, T0 + SEC + i as i64 + skew);
            }
            g.probe();
            // both objects arrive 10 s and 40 s after T0 on the sender clock
            for p in obj_pkts(52, 40, 16, 8, false, false).iter().take(1) {
                g.push(p, T0 + 10 * SEC + skew);
            }
            for p in obj_pkts(51, 40, 16, 8, false, false) {
                g.push(&p, T0 + 40 * SEC + skew);
            }
            for p in obj_pkts(52, 40, 16, 8, false, false).iter().skip(1) {
                g.push(p, T0 + 41 * SEC + skew);
            }
            // 52 started through an unexpired instance (SCT, sender time T0+10 < T0+30): delivered, whatever the skew
            g.expect_c(52, 40, "C19");
            if mode <= 2 {
                // 51: instance 1 has an SCT offset; at sender time T0+40 it is expired
                g.expect_s(51, "C19");
            }
            g.end();
        }
    }

    // ---- C17 (seeded C17-1): FDT instances announcing an empty document, then the time-outs elapse
    {
        let n: u32 = if thorough { 2000 } else { 300 };
        g.cfg2("empty-fdt-instances", 0, true, true, 1 << 16, true, true, 0, false, 1);
        g.ctx.nontrivial("empty-fdt-instances");
        g.ctx.count("memory:empty-fdt");
        for id in 0..n {
            let p = mk_pkt(0, Some(id), 64, 64, true, 0, 0, 0, vec![], false, None);
            g.push(&p, T0 + id as i64);
        }
        g.probe();
        g.cleanup(T0 + n as i64, true);
        g.end();
    }

    // ---- C17 (seeded C17-3, review §3.6): tiny datagrams for a TOI without OTI: the cache accounts
    //      the whole datagram, the object is abandoned once the limit is reached
    for mc in [256usize, 1024] {
        g.cfg2(&format!("tiny-datagrams-cache{}", mc), 2, false, true, mc, true, true, 0, false, 0);
        g.ctx.nontrivial(&format!("tiny-datagrams {}", mc));
        g.ctx.count("memory:tiny-datagrams");
        for i in 0..120u32 {
            let p = mk_pkt(77, None, 16, 8, false, 0, 0, i % 8, vec![], false, None);
            g.push(&p, T0 + i as i64);
        }
        g.end();
    }

    // ---- C17 (review (iv)): WHICH activity refreshes the time-out.  500 ms time-outs, real sleeps of 700 ms
    //      between two groups of pushes; the cleanup names exactly the timed-out objects / instances.
    {
        g.cfg2("stale-per-object", 2, true, true, 1 << 16, true, true, 0, false, 2);
        g.ctx.nontrivial("stale-per-object");
        g.ctx.count("memory:stale-per-object");
        // group A: two objects without FDT, one unfinished FDT instance
        for toi in [61u128, 62] {
            let p = mk_pkt(toi, None, 16, 8, false, 0, 0, 0, vec![1; 16], false, None);
            g.push(&p, T0);
        }
        let pa = mk_pkt(0, Some(7), 64, 64, true, 128, 0, 0, vec![2; 64], false, None);
        g.push(&pa, T0);
        g.sleep(700);
        // group B: a new object, a new unfinished instance, one more packet for object 62 (refreshes it),
        // and a complete FDT listing 61: attach_fdt does NOT refresh the time-out of 61
        let p = mk_pkt(63, None, 16, 8, false, 0, 0, 0, vec![1; 16], false, None);
        g.push(&p, T0 + 1);
        let p = mk_pkt(62, None, 16, 8, false, 0, 0, 1, vec![1; 16], false, None);
        g.push(&p, T0 + 1);
        let pb = mk_pkt(0, Some(8), 64, 64, true, 128, 0, 0, vec![2; 64], false, None);
        g.push(&pb, T0 + 1);
        let f = fdt_xml(&far(2), &[("61".to_string(), 40)], 16, 8);
        for pk in fdt_pkts(&f, 9, 512, None) {
            g.push(&pk, T0 + 1);
        }
        g.probe();
        g.cleanup_spec(T0 + 2, &[61], &[7]);
        g.probe();
        // 61 timed out although a complete FDT instance listing it arrived in between (seeded C17-5)
        g.ctx.step(g.eng, "recv expect 0 n 2 C17:stalled-object-kept-after-timeout");
        // 62, 63 and instance 8 are still there
        let p = mk_pkt(62, None, 16, 8, false, 0, 0, 2, vec![1; 16], false, None);
        g.push(&p, T0 + 3);
        g.push(&pb, T0 + 3);
        g.sleep(700);
        g.cleanup_spec(T0 + 4, &[62, 63], &[8]);
        g.ctx.step(g.eng, "recv expect 0 n 0 C17:stalled-object-kept-after-timeout");
        g.end();
    }

    // ---- C17 (review (ii)): the bytes of an FDT instance are kept without any limit.
    //      (a) No-Code, cenc null, 300 kB document: modelled, `fb` of the probe
    {
        g.cfg2("big-fdt-nocode", 0, false, true, 1 << 16, true, true, 0, false, 0);
        g.ctx.nontrivial("big-fdt-nocode");
        g.ctx.count("memory:big-fdt");
        let files: Vec<(String, usize)> = (0..(if thorough { 6000 } else { 2500 })).map(|i| ((1000 + i).to_string(), 10)).collect();
        let x = fdt_xml(&far(3), &files, 16, 8);
        for (i, p) in fdt_pkts_blocks(&x, 1, 1024, 64).iter().enumerate() {
            g.push(p, T0 + i as i64);
        }
        g.end();
    }
    //      (b) gzip: 20 kB on the wire inflate to 20 MB held by the FDT writer (oracle only: content
    //          encodings are outside the modelled stream)
    {
        g.cfg2("gzip-fdt-inflates", 0, false, true, 1 << 16, true, true, 0, false, 0);
        g.ctx.count("memory:gzip-fdt");
        let mut x = format!("<?xml version=\"1.0\" encoding=\"UTF-8\"?>\n<FDT-Instance Expires=\"{}\"><!--", far(4)).into_bytes();
        x.extend(std::iter::repeat(b' ').take(if thorough { 60_000_000 } else { 20_000_000 }));
        x.extend_from_slice(b"--></FDT-Instance>\n");
        let z = gzip(&x);
        g.ctx.sample(format!("gzip FDT: {} B on the wire, {} B inflated", z.len(), x.len()));
        let e = 1024usize;
        let n = (z.len() + e - 1) / e;
        for i in 0..n {
            let en = ((i + 1) * e).min(z.len());
            let d = mk_pkt_cenc(0, Some(3), e as u16, 4096, z.len() as u64, 0, i as u32, z[i * e..en].to_vec(), Cenc::Gzip);
            g.fz(&d, T0 + i as i64);
        }
        // the 20 / 60 MB document is beyond MAX_FDT_SIZE: refused by the FDT writer, nothing of it is kept
        // (regression guard of 2037586 on the INFLATED path, which is opaque to the model)
        g.ctx.step(g.eng, "recv expect 0 b 0 C17:inflated-fdt-beyond-cap-kept");
        g.ctx.step(g.eng, "recv expect 0 b 0 C04:inflated-fdt-beyond-cap-kept");
        g.ctx.step(g.eng, &format!("recv fzc {}", T0 + SEC));
        g.ctx.end_case(g.eng);
    }

    // ---- C04 (review batch 2, #1): hostile datagrams that reuse the FDT Instance ID / TOIs of the
    //      genuine session that follows (no cleanup in between): the session must still be delivered
    for variant in 0..6u8 {
        for once in [true, false] {
            let lens = [rng.range(1, 100) as usize, rng.range(1, 100) as usize];
            let s = session(rng, T0 + SEC, true, 3600, 1, 1, &lens, 32, 8, true, 255);
            g.cfg2(&format!("same-id-poison-v{}-once{}", variant, once as u8), 1, false, true, 1 << 16, once, true, 0, false, 0);
            g.ctx.nontrivial(&format!("same-id-poison {} {}", variant, once));
            g.ctx.count("malformed:same-id-poison");
            let cls = match variant {
                0 => {
                    // one forged datagram: FDT id 1, single symbol, not XML -> Err("Fail to decode FDT")
                    for p in fdt_pkts(b"this is not an FDT instance", 1, 512, None) {
                        g.push(&p, T0);
                    }
                    "C04:fdt-id-poisoned-by-failed-instance"
                }
                1 => {
                    // forged complete instance id 1 that is already expired (no SCT, Expires in the past)
                    let f = fdt_xml(&ntp_secs(T0 - 7200 * SEC).to_string(), &[("900".to_string(), 10)], 16, 8);
                    for p in fdt_pkts(&f, 1, 512, None) {
                        g.push(&p, T0);
                    }
                    "C04:fdt-id-poisoned-by-expired-instance"
                }
                2 => {
                    // forged instance id 1 whose Expires is not a 32-bit number ("expired" for ever)
                    let f = fdt_xml("99999999999", &[("900".to_string(), 10)], 16, 8);
                    for p in fdt_pkts(&f, 1, 512, None) {
                        g.push(&p, T0);
                    }
                    "C04:fdt-id-poisoned-by-expired-instance"
                }
                3 => {
                    // one forged datagram on id 1 announcing another transfer length (2^40): the instance
                    // keeps the forged OTI and the genuine packets keep it alive
                    let p = mk_pkt(0, Some(1), 32, 8, true, 1u64 << 40, 0, 0, vec![0x3c; 32], false, None);
                    g.push(&p, T0);
                    "C04:fdt-id-blocked-by-forged-fti"
                }
                4 => {
                    // the same with another symbol size / block length only
                    let p = mk_pkt(0, Some(1), 8, 3, true, 200, 0, 0, vec![0x3c; 8], false, None);
                    g.push(&p, T0);
                    "C04:fdt-id-blocked-by-forged-fti"
                }
                _ => {
                    // a forged first symbol under the GENUINE FTI: the first carousel round assembles a
                    // document with that symbol in it and fails; the next round must start afresh
                    let fti = s.pkts.iter().filter(|p| is_fdt(&p.0)).find_map(|p| parse_info(&p.0).ok().and_then(|i| i.fti));
                    if let Some((_, e, b, l)) = fti {
                        let p = mk_pkt(0, Some(1), e, b as u16, true, l, 0, 0, vec![0x3c; (e as u64).min(l) as usize], false, None);
                        g.push(&p, T0);
                    }
                    "C04:fdt-id-poisoned-by-failed-instance"
                }
            };
            g.probe();
            // three carousel rounds of the genuine session, a (non-elapsed) cleanup after each
            for round in 0..3i64 {
                for p in &s.pkts {
                    g.push(&p.0, p.1 + round * 10 * SEC);
                }
                g.cleanup(T0 + (round * 10 + 9) * SEC, false);
            }
            for (toi, len) in &s.objs {
                g.expect_c(*toi, *len, cls);
            }
            g.end();
        }
    }

    // ---- C04 (review batch 2, #2/#6): ONE hostile datagram per case against the block decoders: source
    //      blocks beyond what the code supports (RaptorQ K > 56403, Raptor K > 8192, No-Code K > 65536),
    //      boundary values, RaptorQ symbols of the wrong length, the largest No-Code announcement that
    //      is still accepted.  Opaque to the model (`fz`); oracles: no panic, no hang, allocation classes
    {
        // (name, fec id, max source block length, E, parity, scheme specific, transfer length, payload lengths)
        type Case = (&'static str, u8, u32, u16, u32, Option<(u8, u32, u32, u32)>, u64, Vec<usize>);
        let cases: Vec<Case> = vec![
            ("raptorq-k56404", 6, 56404, 4, 0, Some((1, 1, 1, 4)), 56404 * 4, vec![4]),
            ("raptorq-k56403", 6, 56403, 4, 0, Some((1, 1, 1, 4)), 56403 * 4, vec![4]),
            ("raptorq-k-2^20", 6, 1 << 20, 8, 0, Some((1, 1, 1, 4)), (1 << 20) * 8, vec![8]),
            ("raptorq-symbol-lengths", 6, 10, 16, 0, Some((1, 1, 1, 4)), 160, vec![16, 0, 8, 17, 15, 32, 16, 1]),
            ("raptor-k8193", 1, 8193, 4, 0, Some((2, 1, 1, 4)), 8193 * 4, vec![4]),
            ("raptor-k8192", 1, 8192, 4, 0, Some((2, 1, 1, 4)), 8192 * 4, vec![4]),
            ("raptor-absurd-length", 1, 8192, 100, 0, Some((2, 1, 1, 4)), 0x1000_0000_011d, vec![100]),
            ("raptor-symbol-lengths", 1, 10, 16, 0, Some((2, 1, 1, 4)), 160, vec![16, 0, 8, 17, 15, 32]),
            ("nocode-k-2^28", 0, u32::MAX, 1, 0, None, 1 << 28, vec![1]),
            ("nocode-length-2^40", 0, u32::MAX, 1, 0, None, 1 << 40, vec![1]),
            ("nocode-k65537", 0, 65537, 1, 0, None, 65537, vec![1]),
            ("nocode-k65536", 0, 65536, 1, 0, None, 65536, vec![1]),
            ("nocode-largest-block", 0, 65535, 65535, 0, None, 65535 * 65535, vec![1400]),
            ("nocode-symbol-lengths", 0, 10, 16, 0, None, 160, vec![16, 0, 8, 17, 15, 32]),
            ("rs28-k255-p255", 5, 255, 16, 255, None, 255 * 16, vec![16]),
            ("rs28-symbol-lengths", 5, 10, 16, 4, None, 160, vec![16, 0, 8, 17, 15, 32]),
            ("rs28us-k65535", 129, 65535, 16, 65535, None, 65535 * 16, vec![16]),
            // Reed-Solomon GF(2^m): the finite-field parameter at and around the width of the payload id
            ("rs2m-m32", 2, 10, 16, 4, Some((0, 32, 1, 0)), 160, vec![16, 16]),
            ("rs2m-m31", 2, 10, 16, 4, Some((0, 31, 1, 0)), 160, vec![16, 16]),
            ("rs2m-m33", 2, 10, 16, 4, Some((0, 33, 1, 0)), 160, vec![16, 16]),
            ("rs2m-m255", 2, 10, 16, 4, Some((0, 255, 255, 0)), 160, vec![16, 16]),
        ];
        for (name, fec, b, e, par, ss, tlen, pls) in cases {
            let oti = match hk::make_oti(fec, 0, b, e, par, ss, true) {
                Some(o) => o,
                None => continue,
            };
            for toi in [0u128, 700] {
                g.cfg2(&format!("codec-hostile-{}-toi{}", name, toi), 2, false, true, 1 << 16, true, true, 0, false, 0);
                g.ctx.nontrivial(&format!("codec-hostile {} {}", name, toi));
                g.ctx.count("malformed:codec-hostile");
                let mut ds: Vec<String> = Vec::new();
                for (i, pl) in pls.iter().enumerate() {
                    let p = hk::PktFields {
                        payload: rng.bytes(*pl),
                        transfer_length: tlen,
                        esi: i as u32,
                        sbn: 0,
                        toi,
                        fdt_id: if toi == 0 { Some(5) } else { None },
                        cenc: Cenc::Null,
                        inband_cenc: false,
                        close_object: false,
                        source_block_length: b.min(10),
                        sender_current_time: false,
                    };
                    match guarded(|| hk::new_alc_pkt(&oti, &0u128, TSI, &p, false, st(T0))) {
                        Ok(d) => ds.push(hex(&d)),
                        Err(_) => g.ctx.count("codec-hostile:builder-refuses"),
                    }
                }
                // in a child process: what these datagrams provoked before the repairs (abort on a failed
                // allocation, 6.4 GB held) is nothing the engine survives
                if !ds.is_empty() {
                    g.ctx.step(g.eng, &format!("recv iso {} {}", T0, ds.join(",")));
                }
                g.ctx.end_case(g.eng);
            }
        }
    }

    // ---- C04: header extensions of length 0 / beyond the header in front of EXT_FTI (the extension walk
    //      must end: a parser that does not advance hangs the receiver in `push_data`)
    {
        let d = mk_pkt(800, None, 16, 8, true, 160, 0, 0, vec![1; 16], false, None);
        if let Ok(l) = hk::parse_lct_header(&d) {
            let off = l.header_ext_offset as usize;
            for (k, word) in [[10u8, 0, 0, 0], [2, 0, 0, 0], [1, 0, 0, 0], [10, 255, 0, 0], [127, 1, 0, 0], [200, 0, 0, 0]].iter().enumerate() {
                if off > d.len() || d[2] == 255 {
                    break;
                }
                let mut x = d[..off].to_vec();
                x.extend_from_slice(word);
                x.extend_from_slice(&d[off..]);
                x[2] += 1;
                g.cfg2(&format!("lct-ext-hostile-{}", k), 2, false, true, 1 << 16, true, true, 0, false, 0);
                g.ctx.nontrivial(&format!("lct-ext-hostile {}", k));
                g.ctx.count("malformed:lct-ext");
                g.fz(&x, T0);
                g.fz(&d, T0 + 1);
                g.ctx.step(g.eng, &format!("recv fzc {}", T0 + SEC));
                g.ctx.end_case(g.eng);
            }
        }
    }

    // ---- C04 (seeded C04-4): an "SBN ladder" on ONE object - an FTI announcing 2^24 tiny source blocks,
    //      then packets whose SBN climbs by 4096: the block window must refuse them (object in error),
    //      not grow the block table packet after packet.  Modelled (the object model has the window).
    {
        g.cfg2("sbn-ladder", 4, false, true, 1 << 16, true, true, 0, false, 0);
        g.ctx.nontrivial("sbn-ladder");
        g.ctx.count("malformed:sbn-ladder");
        for i in 0..24u32 {
            let sbn = 2047 + 4096 * (i + 1);
            let p = mk_pkt(900, None, 1, 2, true, 1u64 << 25, sbn, 0, vec![7], false, None);
            g.push(&p, T0 + i as i64);
        }
        g.cleanup(T0 + SEC, false);
        g.end();
    }

    // ---- C17 (seeded C17-5): an object stalls while NEW complete FDT instances keep arriving more often than
    //      the object time-out (500 ms; one instance every 300 ms): the instances must not postpone it
    {
        g.cfg2("stalled-object-fdt-carousel", 2, false, true, 1 << 16, true, true, 0, false, 2);
        g.ctx.nontrivial("stalled-object-fdt-carousel");
        g.ctx.count("memory:stalled-object-fdt-carousel");
        let p = mk_pkt(66, None, 16, 8, true, 160, 0, 0, vec![1; 16], false, None);
        g.push(&p, T0);
        for k in 0..5u32 {
            g.sleep(300);
            // instance k lists 66 for k = 0 (attached once), other files afterwards
            let f = fdt_xml(&far(3), &[((if k == 0 { 66 } else { 300 + k }).to_string(), 160)], 16, 8);
            for pk in fdt_pkts(&f, 20 + k, 512, None) {
                g.push(&pk, T0 + 1 + k as i64);
            }
        }
        // 1.5 s after its last packet (time-out 500 ms)
        g.cleanup_spec(T0 + 10, &[66], &[]);
        g.ctx.step(g.eng, "recv expect 0 n 0 C17:stalled-object-kept-after-timeout");
        g.end();
    }

    // ---- C17 (seeded C17-7): FDT-only traffic through the MultiReceiver (oracle only)
    {
        g.cfg2("multireceiver-fdt-only", 0, false, true, 1 << 16, true, true, 0, false, 0);
        g.ctx.count("memory:multireceiver-fdt-only");
        g.ctx.step(g.eng, &format!("recv mr2 {}", if thorough { 2000 } else { 400 }));
        g.ctx.end_case(g.eng);
    }

    // ---- C19 (seeded C19-6): the clock offset is a property of ONE FDT instance.  Receiver clock 1 h ahead /
    //      behind; instance 1 carries EXT_TIME, instance 2 (valid 30 s) carries none: instance 2 is judged on
    //      the receiver's own clock
    for (k, skew_s) in [3600i64, -3600].iter().enumerate() {
        let skew = *skew_s * SEC;
        g.cfg2(&format!("sct-then-no-sct-{}", k), 0, false, true, 1 << 16, true, true, skew, false, 0);
        g.ctx.nontrivial(&format!("sct-then-no-sct {}", k));
        g.ctx.count("expiry:sct-then-no-sct");
        let f1 = fdt_xml(&far(4), &[("71".to_string(), 40)], 16, 8);
        for (i, p) in fdt_pkts(&f1, 1, 64, Some(T0)).iter().enumerate() {
            g.push(p, T0 + i as i64 + skew);
        }
        for p in obj_pkts(71, 40, 16, 8, false, false) {
            g.push(&p, T0 + SEC + skew);
        }
        // instance 2: Expires = T0 + 30 s (or + 2 h for the receiver that is behind), no EXT_TIME
        let exp2 = if skew > 0 { T0 + 30 * SEC } else { T0 - 1800 * SEC };
        let f2 = fdt_xml(&ntp_secs(exp2).to_string(), &[("72".to_string(), 40)], 16, 8);
        for (i, p) in fdt_pkts(&f2, 2, 64, None).iter().enumerate() {
            g.push(p, T0 + 2 * SEC + i as i64 + skew);
        }
        g.probe();
        for p in obj_pkts(72, 40, 16, 8, false, false) {
            g.push(&p, T0 + 3 * SEC + skew);
        }
        g.expect_c(71, 40, "C19");
        if skew > 0 {
            // own clock = T0 + 1 h > Expires: 72 must stay silent (with the inherited offset it would be delivered)
            g.expect_s(72, "C19");
        } else {
            // own clock = T0 - 1 h < Expires = T0 - 30 min: unexpired on the only clock this instance has
            // (with the inherited offset, sender time T0 > Expires, it would be dropped)
            g.expect_c(72, 40, "C19:no-sct-instance-judged-on-foreign-offset");
        }
        g.end();
    }

    // ---- C02 / C19 (seeded C02-7): an object listed only by an OLDER, still valid instance is delivered
    for once in [true, false] {
        g.cfg2(&format!("older-fdt-lists-object-once{}", once as u8), 0, false, true, 1 << 16, once, true, 0, false, 0);
        g.ctx.nontrivial(&format!("older-fdt-lists-object {}", once));
        g.ctx.count("expiry:older-fdt-lists-object");
        let f1 = fdt_xml(&far(5), &[("81".to_string(), 40)], 16, 8);
        for (i, p) in fdt_pkts(&f1, 1, 64, Some(T0)).iter().enumerate() {
            g.push(p, T0 + i as i64);
        }
        let f2 = fdt_xml(&far(6), &[("82".to_string(), 40)], 16, 8);
        for (i, p) in fdt_pkts(&f2, 2, 64, Some(T0 + SEC)).iter().enumerate() {
            g.push(p, T0 + SEC + i as i64);
        }
        let f3 = fdt_xml(&far(7), &[("83".to_string(), 40)], 16, 8);
        for (i, p) in fdt_pkts(&f3, 3, 64, Some(T0 + 2 * SEC)).iter().enumerate() {
            g.push(p, T0 + 2 * SEC + i as i64);
        }
        g.probe();
        for toi in [81u128, 82, 83] {
            for p in obj_pkts(toi, 40, 16, 8, false, false) {
                g.push(&p, T0 + 3 * SEC);
            }
        }
        for toi in [81u128, 82, 83] {
            g.expect_c(toi, 40, "C19:listed-by-older-valid-fdt-not-delivered");
            g.expect_c(toi, 40, "C02:listed-by-older-valid-fdt-not-delivered");
        }
        g.end();
    }

    // ---- C04 (seeded C04-5): EXT_FTI and FDT disagree on the transfer length.  The object is partitioned from the
    //      EXT_FTI (5 blocks), the FDT that arrives later announces less (or more); then packets for blocks
    //      that were not initialised yet, in and beyond either length
    //      (cases 4, 5: the FDT carries NO FEC OTI at all, so the FDT-is-the-authority restart of 432b305 does not
    //      apply and the in-band partition stays: the length mismatch branch of attach_fdt is reached)
    for (k, (l_fti, l_fdt)) in [(160usize, 40usize), (160, 33), (40, 160), (160, 0), (160, 40), (40, 160)].iter().enumerate() {
        g.cfg2(&format!("fdt-fti-length-mismatch-{}", k), 2, false, true, 1 << 16, true, true, 0, false, 0);
        g.ctx.nontrivial(&format!("fdt-fti-length-mismatch {}", k));
        g.ctx.count("malformed:fdt-fti-length-mismatch");
        let p = mk_pkt(90, None, 16, 2, true, *l_fti as u64, 0, 0, vec![1; 16], false, None);
        g.push(&p, T0);
        // Content-Length follows the FDT's Transfer-Length: when the EXT_FTI partition delivers another number of
        // bytes the object ends in error (e19fa2b), which the model has through `FileAbs.contentLength`
        let mut f = fdt_xml(&far(8), &[("90".to_string(), *l_fdt)], 16, 2);
        if k >= 4 {
            f = String::from_utf8(f).unwrap().replace(" FEC-OTI-FEC-Encoding-ID=\"0\" FEC-OTI-Maximum-Source-Block-Length=\"2\" FEC-OTI-Encoding-Symbol-Length=\"16\"", "").into_bytes();
        }
        for pk in fdt_pkts(&f, 1, 512, None) {
            g.push(&pk, T0 + 1);
        }
        for (i, sbn) in [4u32, 3, 2, 1, 0, 5, 9].iter().enumerate() {
            for esi in [1u32, 0] {
                let p = mk_pkt(90, None, 16, 2, i % 2 == 0, *l_fti as u64, *sbn, esi, vec![1; 16], false, None);
                g.push(&p, T0 + 2 + i as i64);
            }
        }
        g.cleanup(T0 + SEC, false);
        g.end();
    }

    // ---- Content-Length decides complete vs error (e19fa2b): the File entry announces the transfer length that
    //      is delivered, and a Content-Length equal to / smaller / larger than it, or none
    for (k, cl) in [Some(40usize), Some(39), Some(41), Some(0), None].iter().enumerate() {
        g.cfg2(&format!("content-length-{}", k), 2, false, true, 1 << 16, true, true, 0, false, 0);
        g.ctx.nontrivial(&format!("content-length {}", k));
        g.ctx.count("registry:content-length");
        let x = String::from_utf8(fdt_xml(&far(10), &[("91".to_string(), 40)], 16, 8)).unwrap();
        let x = match cl {
            Some(c) => x.replace("Content-Length=\"40\"", &format!("Content-Length=\"{}\"", c)),
            None => x.replace("Content-Length=\"40\" ", ""),
        };
        for pk in fdt_pkts(x.as_bytes(), 1, 512, None) {
            g.push(&pk, T0);
        }
        // in-band EXT_CENC null on every second packet (read by ObjectReceiver::push)
        for (i, p) in obj_pkts(91, 40, 16, 8, false, false).iter().enumerate() {
            if i % 2 == 0 {
                if let Ok(info) = parse_info(p) {
                    if let Some((sbn, esi)) = info.pid {
                        let q = mk_pkt_cenc(91, None, 16, 8, 40, sbn, esi, info.payload.clone(), Cenc::Null);
                        g.push(&q, T0 + 1 + i as i64);
                        continue;
                    }
                }
            }
            g.push(p, T0 + 1 + i as i64);
        }
        if *cl == Some(40) || cl.is_none() {
            g.expect_c(91, 40, "C04:content-length-match-not-delivered");
        }
        g.end();
    }

    // ---- C17 / C04 (repair 2037586): an FDT Instance stops at MAX_FDT_SIZE = 16 MiB.  Exactly 16 MiB is received
    //      (and kept), one byte more is refused by the FDT writer: Err, instance dropped.  Modelled.
    for (k, total) in [(0usize, 16usize * 1024 * 1024), (1, 16 * 1024 * 1024 + 1)] {
        if k == 0 && !thorough {
            continue; // 34 MB of op lines per case: the accepted boundary only in the thorough tier
        }
        g.cfg2(&format!("fdt-size-cap-{}", k), 0, false, true, 1 << 16, true, true, 0, false, 0);
        g.ctx.nontrivial(&format!("fdt-size-cap {}", k));
        g.ctx.count("memory:fdt-size-cap");
        let head = format!("<?xml version=\"1.0\" encoding=\"UTF-8\"?>\n<FDT-Instance xmlns=\"urn:IETF:metadata:2005:FLUTE:FDT\" Expires=\"{}\"><!--", far(11));
        let tail = "--></FDT-Instance>\n";
        let mut x = head.into_bytes();
        x.extend(std::iter::repeat(b' ').take(total - x.len() - tail.len()));
        x.extend_from_slice(tail.as_bytes());
        for (i, p) in fdt_pkts_blocks(&x, 1, 65000, 64).iter().enumerate() {
            g.push(p, T0 + i as i64);
        }
        g.probe();
        g.cleanup(T0 + SEC, false);
        g.end();
    }

    // ---- C04 (review batch 3): OBJECT-level FTI poisoning, the twin of same-id-poison-v3/v4: ONE forged object
    //      datagram with a conflicting EXT_FTI for a TOI of the genuine session that follows (same TOI, no cleanup)
    //      v0/v1: three carousel rounds (the object is interrupted in the first one and received in the second);
    //      v2/v3: ONE round only - the TOI is lost (finding recv-6: the first OTI wins, the FDT is not the authority)
    for variant in 0..4u8 {
        let rounds = if variant < 2 { 3i64 } else { 1 };
        let lens = [rng.range(40, 100) as usize, rng.range(1, 100) as usize];
        let s = session(rng, T0 + SEC, true, 3600, 1, 1, &lens, 32, 8, true, 255);
        g.cfg2(&format!("same-toi-poison-v{}", variant), 2, false, true, 1 << 16, true, true, 0, false, 0);
        g.ctx.nontrivial(&format!("same-toi-poison {}", variant));
        g.ctx.count("malformed:same-toi-poison");
        let toi = s.objs[0].0;
        let p = if variant % 2 == 0 {
            mk_pkt(toi, None, 32, 8, true, 1u64 << 40, 0, 0, vec![0x3c; 32], false, None)
        } else {
            mk_pkt(toi, None, 16, 8, true, lens[0] as u64, 0, 0, vec![0x3c; 16], false, None)
        };
        g.push(&p, T0);
        for round in 0..rounds {
            for p in &s.pkts {
                g.push(&p.0, p.1 + round * 10 * SEC);
            }
            g.cleanup(T0 + (round * 10 + 9) * SEC, false);
        }
        for (t, len) in &s.objs {
            g.expect_c(*t, *len, if rounds > 1 { "C04:toi-blocked-by-forged-fti" } else { "C04:toi-lost-one-round-by-forged-fti" });
        }
        g.end();
    }

    // ---- C04 (seeded C04-6): the FEC OTI arrives through the FDT XML (not EXT_FTI) and asks for source
    //      blocks beyond the code's maximum; then ONE object packet without EXT_FTI.  Child process.
    for (name, fec, b, ssi, ss) in [("raptorq", 6u8, 56404u32, "AQABBA==", (1u8, 1u32, 1u32, 4u32)), ("raptor", 1, 8193, "AAEBBA==", (2, 1, 1, 4)),
                                    ("raptorq-ok", 6, 56403, "AQABBA==", (1, 1, 1, 4)), ("raptor-ok", 1, 8192, "AAEBBA==", (2, 1, 1, 4))] {
        g.cfg2(&format!("fdt-oti-kmax-{}", name), 2, false, true, 1 << 16, true, true, 0, false, 0);
        g.ctx.nontrivial(&format!("fdt-oti-kmax {}", name));
        g.ctx.count("malformed:fdt-oti-kmax");
        let tl = b as u64 * 4;
        let xml = format!(
            "<?xml version=\"1.0\" encoding=\"UTF-8\"?>\n<FDT-Instance xmlns=\"urn:IETF:metadata:2005:FLUTE:FDT\" Expires=\"{}\">\n  <File Content-Location=\"file:///k\" TOI=\"95\" Content-Length=\"{}\" Transfer-Length=\"{}\" FEC-OTI-FEC-Encoding-ID=\"{}\" FEC-OTI-Maximum-Source-Block-Length=\"{}\" FEC-OTI-Encoding-Symbol-Length=\"4\" FEC-OTI-Scheme-Specific-Info=\"{}\"/>\n</FDT-Instance>\n",
            far(9), tl, tl, fec, b, ssi
        );
        let mut ds: Vec<String> = fdt_pkts(xml.as_bytes(), 1, 1024, None).iter().map(|d| hex(d)).collect();
        if let Some(oti) = hk::make_oti(fec, 0, b, 4, 0, Some(ss), false) {
            for esi in 0..2u32 {
                let p = hk::PktFields { payload: vec![9; 4], transfer_length: tl, esi, sbn: 0, toi: 95, fdt_id: None, cenc: Cenc::Null, inband_cenc: false,
                                        close_object: false, source_block_length: 0, sender_current_time: false };
                if let Ok(d) = guarded(|| hk::new_alc_pkt(&oti, &0u128, TSI, &p, false, st(T0))) {
                    ds.push(hex(&d));
                }
            }
        }
        g.ctx.step(g.eng, &format!("recv iso {} {}", T0, ds.join(",")));
        g.ctx.end_case(g.eng);
    }

    // ---- C04: the scheme-specific part of an FEC OTI that arrives through the FDT XML (base64
    //      FEC-OTI-Scheme-Specific-Info) is taken as is: RaptorQ symbol alignment Al = 0 / not dividing E, number of
    //      sub-blocks N = 0, and the same for Raptor; then ALL source symbols of the (2-symbol) object without
    //      EXT_FTI, so that the decoder is built and runs.  Child process.
    {
        fn b64(d: &[u8]) -> String {
            const T: &[u8; 64] = b"ABCDEFGHIJKLMNOPQRSTUVWXYZabcdefghijklmnopqrstuvwxyz0123456789+/";
            let mut o = String::new();
            for c in d.chunks(3) {
                let n = (c[0] as u32) << 16 | (*c.get(1).unwrap_or(&0) as u32) << 8 | *c.get(2).unwrap_or(&0) as u32;
                o.push(T[(n >> 18) as usize & 63] as char);
                o.push(T[(n >> 12) as usize & 63] as char);
                o.push(if c.len() > 1 { T[(n >> 6) as usize & 63] as char } else { '=' });
                o.push(if c.len() > 2 { T[n as usize & 63] as char } else { '=' });
            }
            o
        }
        for fec in [6u8, 1] {
            for al in [0u8, 1, 3, 4, 8, 255] {
                for e in [16u16, 1024, 1023] {
                    for n in [0u16, 1, 2] {
                        let ssi = if fec == 6 { b64(&[1, (n >> 8) as u8, n as u8, al]) } else { b64(&[0, 1, n as u8, al]) };
                        g.cfg2(&format!("fdt-oti-ssi-fec{}-al{}-e{}-n{}", fec, al, e, n), 2, false, true, 1 << 16, true, true, 0, false, 0);
                        g.ctx.nontrivial(&format!("fdt-oti-ssi {} {} {} {}", fec, al, e, n));
                        g.ctx.count("malformed:fdt-oti-ssi");
                        let k = if fec == 1 { 4u32 } else { 2 }; // Raptor needs K >= 4
                        let tl = k as u64 * e as u64;
                        let xml = format!(
                            "<?xml version=\"1.0\" encoding=\"UTF-8\"?>\n<FDT-Instance xmlns=\"urn:IETF:metadata:2005:FLUTE:FDT\" Expires=\"{}\">\n  <File Content-Location=\"file:///a\" TOI=\"97\" Content-Length=\"{}\" Transfer-Length=\"{}\" FEC-OTI-FEC-Encoding-ID=\"{}\" FEC-OTI-Maximum-Source-Block-Length=\"{}\" FEC-OTI-Encoding-Symbol-Length=\"{}\" FEC-OTI-Scheme-Specific-Info=\"{}\"/>\n</FDT-Instance>\n",
                            far(12), tl, tl, fec, k, e, ssi
                        );
                        let mut ds: Vec<String> = fdt_pkts(xml.as_bytes(), 1, 1024, None).iter().map(|d| hex(d)).collect();
                        let ss = if fec == 6 { (1u8, 1u32, 1u32, 4u32) } else { (2, 1, 1, 4) };
                        if let Some(oti) = hk::make_oti(fec, 0, k, e, 0, Some(ss), false) {
                            for esi in 0..k {
                                let p = hk::PktFields { payload: rng.bytes(e as usize), transfer_length: tl, esi, sbn: 0, toi: 97, fdt_id: None, cenc: Cenc::Null,
                                                        inband_cenc: false, close_object: false, source_block_length: 0, sender_current_time: false };
                                if let Ok(d) = guarded(|| hk::new_alc_pkt(&oti, &0u128, TSI, &p, false, st(T0))) {
                                    ds.push(hex(&d));
                                }
                            }
                        }
                        g.ctx.step(g.eng, &format!("recv iso {} {}", T0, ds.join(",")));
                        g.ctx.end_case(g.eng);
                    }
                }
            }
        }
    }

    // ---- C04 (seeded C04-7): the codepoint of a packet and the OTI of its object disagree.  The object is
    //      established with one scheme (EXT_FTI), then datagrams for it arrive under ANOTHER codepoint, without
    //      EXT_FTI and with fewer bytes after the LCT header than the object's payload-id needs
    for (fec_obj, par, ss) in [(129u8, 4u32, None), (0, 0, None), (5, 4, None), (6, 0, Some((1u8, 1u32, 1u32, 4u32))), (1, 0, Some((2, 1, 1, 4)))] {
        let oti = match hk::make_oti(fec_obj, 0, 10, 16, par, ss, true) {
            Some(o) => o,
            None => continue,
        };
        g.cfg2(&format!("codepoint-vs-oti-{}", fec_obj), 2, false, true, 1 << 16, true, true, 0, false, 0);
        g.ctx.nontrivial(&format!("codepoint-vs-oti {}", fec_obj));
        g.ctx.count("malformed:codepoint-vs-oti");
        let mut ds: Vec<String> = Vec::new();
        let first = hk::PktFields { payload: vec![3; 16], transfer_length: 160, esi: 0, sbn: 0, toi: 96, fdt_id: None, cenc: Cenc::Null, inband_cenc: false,
                                    close_object: false, source_block_length: 10, sender_current_time: false };
        if let Ok(d) = guarded(|| hk::new_alc_pkt(&oti, &0u128, TSI, &first, false, st(T0))) {
            ds.push(hex(&d));
        }
        for fec_pkt in [0u8, 1, 5, 6, 129] {
            if fec_pkt == fec_obj {
                continue;
            }
            let ss2 = match fec_pkt { 6 => Some((1u8, 1u32, 1u32, 4u32)), 1 => Some((2, 1, 1, 4)), _ => None };
            let o2 = match hk::make_oti(fec_pkt, 0, 10, 16, if fec_pkt == 5 || fec_pkt == 129 { 4 } else { 0 }, ss2, false) {
                Some(o) => o,
                None => continue,
            };
            for pl in [0usize, 1, 3, 4, 16] {
                let p = hk::PktFields { payload: vec![4; pl], transfer_length: 160, esi: 1, sbn: 0, toi: 96, fdt_id: None, cenc: Cenc::Null, inband_cenc: false,
                                        close_object: false, source_block_length: 10, sender_current_time: false };
                if let Ok(d) = guarded(|| hk::new_alc_pkt(&o2, &0u128, TSI, &p, false, st(T0))) {
                    ds.push(hex(&d));
                }
            }
        }
        g.ctx.step(g.eng, &format!("recv iso {} {}", T0, ds.join(",")));
        g.ctx.end_case(g.eng);
    }

    // ---- C17 (seeded C17-4): idle sessions with a pending object at the MultiReceiver (oracle only)
    {
        g.cfg2("idle-sessions", 0, true, false, 1 << 16, true, true, 0, false, 0);
        g.ctx.count("memory:idle-sessions");
        g.ctx.step(g.eng, &format!("recv mr {}", if thorough { 200 } else { 20 }));
        g.ctx.end_case(g.eng);
    }

    // ---- C17 (review §3.5): one packet per TOI announcing a huge object in small blocks: the block
    //      table is pre-allocated whatever object_max_cache_size says
    {
        let n: u128 = if thorough { 3000 } else { 400 };
        g.cfg2("huge-announced-small-blocks", 0, false, true, 1024, true, true, 0, false, 0);
        g.ctx.nontrivial("huge-announced-small-blocks");
        g.ctx.count("memory:block-table-prealloc");
        for i in 0..n {
            let p = mk_pkt(20_000 + i, None, 16, 8, true, 1u64 << 40, 0, 0, rng.bytes(16), false, None);
            g.push(&p, T0 + i as i64);
        }
        g.ctx.end_case(g.eng);
    }
}

/// one object packet without FTI on an arbitrary TSI
pub fn mk_pkt_tsi(tsi: u64, toi: u128, esi: u32) -> Vec<u8> {
    let mut oti = Oti::new_no_code(16, 8);
    oti.inband_fti = false;
    let p = hk::PktFields {
        payload: vec![7; 16],
        transfer_length: 0,
        esi,
        sbn: 0,
        toi,
        fdt_id: None,
        cenc: Cenc::Null,
        inband_cenc: false,
        close_object: false,
        source_block_length: 0,
        sender_current_time: false,
    };
    hk::new_alc_pkt(&oti, &0u128, tsi, &p, false, st(0))
}

/// like `fdt_pkts` but partitioned into source blocks of `b` symbols
pub fn fdt_pkts_blocks(xml: &[u8], id: u32, e: u16, b: u16) -> Vec<Vec<u8>> {
    let (al, asm, nl, n) = hk::block_partitioning(b as u64, xml.len() as u64, e as u64);
    let mut out = Vec::new();
    let mut off = 0usize;
    for sbn in 0..n {
        let k = if sbn < nl { al } else { asm };
        for esi in 0..k {
            let en = (off + e as usize).min(xml.len());
            out.push(mk_pkt(0, Some(id), e, b, true, xml.len() as u64, sbn as u32, esi as u32, xml[off..en].to_vec(), false, None));
            off = en;
        }
    }
    out
}

#[allow(clippy::too_many_arguments)]
pub fn mk_pkt_cenc(toi: u128, fdt_id: Option<u32>, e: u16, b: u16, tlen: u64, sbn: u32, esi: u32, payload: Vec<u8>, cenc: Cenc) -> Vec<u8> {
    let oti = Oti::new_no_code(e, b);
    let p = hk::PktFields {
        payload,
        transfer_length: tlen,
        esi,
        sbn,
        toi,
        fdt_id,
        cenc,
        inband_cenc: true,
        close_object: false,
        source_block_length: 0,
        sender_current_time: false,
    };
    hk::new_alc_pkt(&oti, &0u128, TSI, &p, false, st(0))
}
