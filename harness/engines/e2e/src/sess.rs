//! Sender side: build a REAL `flute::sender::Sender` from the parameters, run it under a virtual
//! clock, decode the emitted datagrams and derive the facts the model takes as inputs.
use crate::params::*;
use flute::core::lct::Cenc;
use flute::core::{Oti, UDPEndpoint};
use flute::sender::{self, CarouselRepeatMode, FDTPublishMode, ObjectDesc, PriorityQueue, TransferConfig};
use std::collections::BTreeMap;
use std::io::{Read, Seek, SeekFrom};
use std::panic::AssertUnwindSafe;
use std::time::{Duration, SystemTime};

pub const TSI: u64 = 1;

pub fn t0() -> SystemTime {
    SystemTime::UNIX_EPOCH + Duration::from_secs(1_750_000_000)
}

pub fn endpoint() -> UDPEndpoint {
    UDPEndpoint::new(None, "224.0.0.1".to_owned(), 5000)
}

pub fn cenc_of(s: &str) -> Option<Cenc> {
    Some(match s {
        "null" => Cenc::Null,
        "zlib" => Cenc::Zlib,
        "deflate" => Cenc::Deflate,
        "gzip" => Cenc::Gzip,
        _ => return None,
    })
}

pub fn make_oti(p: &OtiP) -> Option<Oti> {
    if p.e == 0 || p.e > 65535 {
        return None;
    }
    let mut o = match p.sch {
        Scheme::NoCode => {
            if p.b > 65535 {
                return None;
            }
            Oti::new_no_code(p.e as u16, p.b as u16)
        }
        Scheme::Rs => {
            if p.b > 255 || p.p > 255 {
                return None;
            }
            Oti::new_reed_solomon_rs28(p.e as u16, p.b as u8, p.p as u8).ok()?
        }
        Scheme::RsUs => {
            if p.b > 65535 || p.p > 65535 {
                return None;
            }
            Oti::new_reed_solomon_rs28_under_specified(p.e as u16, p.b as u16, p.p as u16).ok()?
        }
        Scheme::RaptorQ => {
            if p.b > 65535 || p.p > 65535 {
                return None;
            }
            Oti::new_raptorq(p.e as u16, p.b as u16, p.p as u16, 1, 1).ok()?
        }
        Scheme::Raptor => {
            if p.b > 65535 || p.p > 65535 {
                return None;
            }
            Oti::new_raptor(p.e as u16, p.b as u16, p.p as u16, 1, 1).ok()?
        }
    };
    o.inband_fti = p.ifti;
    Some(o)
}

pub fn byte_at(seed: u64, ck: char, i: u64) -> u8 {
    match ck {
        'p' => ((i % 17) as u8).wrapping_add(seed as u8),
        'z' => 0,
        _ => {
            let mut x = i.wrapping_mul(0x9E37_79B9_7F4A_7C15) ^ seed.wrapping_mul(0xD6E8_FEB8_6659_FD93);
            x ^= x >> 29;
            x = x.wrapping_mul(0xBF58_476D_1CE4_E5B9);
            x ^= x >> 32;
            x as u8
        }
    }
}

pub fn content(o: &ObjP) -> Vec<u8> {
    (0..o.sz).map(|i| byte_at(o.seed, o.ck, i)).collect()
}

/// synthetic `Read + Seek` source of a declared length (no memory behind it)
#[derive(Debug)]
pub struct Sparse {
    pub len: u64,
    pub pos: u64,
    pub seed: u64,
    pub ck: char,
}
impl Read for Sparse {
    fn read(&mut self, buf: &mut [u8]) -> std::io::Result<usize> {
        let left = self.len.saturating_sub(self.pos);
        let n = (buf.len() as u64).min(left) as usize;
        for (k, b) in buf.iter_mut().take(n).enumerate() {
            *b = byte_at(self.seed, self.ck, self.pos + k as u64);
        }
        self.pos += n as u64;
        Ok(n)
    }
}
impl Seek for Sparse {
    fn seek(&mut self, p: SeekFrom) -> std::io::Result<u64> {
        let np: i128 = match p {
            SeekFrom::Start(x) => x as i128,
            SeekFrom::End(x) => self.len as i128 + x as i128,
            SeekFrom::Current(x) => self.pos as i128 + x as i128,
        };
        if np < 0 {
            return Err(std::io::Error::new(std::io::ErrorKind::InvalidInput, "neg"));
        }
        self.pos = np as u64;
        Ok(self.pos)
    }
}

pub fn location(idx: usize) -> String {
    if idx % 2 == 0 {
        format!("file:///obj{}.bin", idx)
    } else {
        format!("file:///d{}/sub/obj{}.bin", idx, idx)
    }
}
pub fn ctype(idx: usize) -> String {
    if idx % 2 == 0 {
        "application/octet-stream".to_string()
    } else {
        format!("text/x-obj{}", idx)
    }
}
pub fn obj_groups(idx: usize) -> Vec<String> {
    vec![format!("grp-o{}", idx), "common".to_string()]
}
pub fn etag(idx: usize) -> String {
    format!("\"etag-{}\"", idx)
}

#[derive(Clone, Debug)]
pub struct Dgram {
    pub data: Vec<u8>,
    pub t: SystemTime,
    pub toi: u128,
    pub fdt_id: u32,
    pub sbn: u32,
    pub esi: u32,
    pub close: bool,
    pub paylen: usize,
}

pub struct ObjInfo {
    pub p: ObjP,
    pub idx: usize,
    /// None if add_object (or the creation of the ObjectDesc) refused it
    pub toi: Option<u128>,
    pub tl: Option<u64>,
    pub created: bool,
    pub oti: OtiP,
    pub content: Option<Vec<u8>>,
    pub md5: Option<String>,
    pub add_err: Option<String>,
    /// datagram length of the object's packets / of the packet carrying its last source symbol
    pub pl: u64,
    pub pll: u64,
}

pub struct Session {
    pub sp: SessP,
    pub objs: Vec<ObjInfo>,
    pub stream: Vec<Dgram>,
    pub fdts: Vec<FdtInst>,
    pub sched: Vec<(char, u128, u64)>,
    pub hash: u64,
    pub sender_panic: Option<String>,
    pub stuck: bool,
    pub tmp: Option<std::path::PathBuf>,
    /// first packet of the sender that flute's own parser rejects
    pub unparsable: Option<String>,
    /// the packet lengths of an object do not follow the rule the model assumes (input check)
    pub pktlen_odd: Option<String>,
    /// the stand-alone scrape of an FDT instance's File list disagrees with the document (harness error)
    pub scrape_odd: Option<String>,
}

impl Drop for Session {
    fn drop(&mut self) {
        if let Some(t) = self.tmp.take() {
            std::fs::remove_dir_all(t).ok();
        }
    }
}

pub const HM: u128 = (1u128 << 61) - 1;
pub fn absorb(h: u64, v: u128) -> u64 {
    (((h as u128) * 1_000_003 + (v % HM) + 1) % HM) as u64
}

fn car_mode(c: &Car) -> Option<CarouselRepeatMode> {
    match c {
        Car::None => None,
        Car::Delay(d) => Some(CarouselRepeatMode::DelayBetweenTransfers(Duration::from_micros(*d))),
        Car::Interval(d) => Some(CarouselRepeatMode::IntervalBetweenStartTimes(Duration::from_micros(*d))),
    }
}

pub fn cache_control(cc: &str) -> Option<sender::CacheControl> {
    match cc {
        "-" => None,
        "nocache" => Some(sender::CacheControl::NoCache),
        "maxstale" => Some(sender::CacheControl::MaxStale),
        x => {
            let s: u64 = x.strip_prefix("exp")?.parse().ok()?;
            Some(sender::CacheControl::Expires(Duration::from_secs(s)))
        }
    }
}

static TMPN: std::sync::atomic::AtomicU64 = std::sync::atomic::AtomicU64::new(0);

pub fn work_dir(tag: &str) -> std::path::PathBuf {
    let n = TMPN.fetch_add(1, std::sync::atomic::Ordering::SeqCst);
    let parent = std::env::var("E2E_PARENT").unwrap_or_else(|_| "0".to_string());
    let p = std::path::PathBuf::from(format!("/verif/work/e2e-{}-{}-{}-{}", tag, parent, std::process::id(), n));
    std::fs::create_dir_all(&p).ok();
    p
}

/// RFC 5052 partition in u128: (a_large, a_small, nb_large, n)
pub fn rfc_partition(b: u128, l: u128, e: u128) -> (u128, u128, u128, u128) {
    if b == 0 || e == 0 {
        return (0, 0, 0, 0);
    }
    let t = (l + e - 1) / e;
    let n = (t + b - 1) / b;
    if n == 0 {
        return (0, 0, 0, 0);
    }
    ((t + n - 1) / n, t / n, t - (t / n) * n, n)
}

/// the scheme's maximum transfer length, written from the FTI field widths (48 bit transfer
/// length; 40 bit for RaptorQ) and the SBN field widths (RS GF(2^8): 8 bit, No-Code/Raptor: 16,
/// RaptorQ: 8, RS under-specified: 32): at most `max_sbn` blocks of B symbols of E bytes.
pub fn scheme_max_tl(o: &OtiP) -> u128 {
    let cap: u128 = match o.sch {
        Scheme::RaptorQ => 0xFF_FFFF_FFFF,
        _ => 0xFFFF_FFFF_FFFF,
    };
    let max_sbn: u128 = match o.sch {
        Scheme::NoCode | Scheme::Raptor => 65535,
        Scheme::Rs | Scheme::RaptorQ => 255,
        Scheme::RsUs => 0xFFFF_FFFF,
    };
    (o.e as u128 * o.b as u128 * max_sbn).min(cap)
}

/// Stand-alone decoder of the fields the session model talks about (RFC 5651 LCT header, EXT_FDT,
/// and the FEC payload IDs of RFC 5445 / 5510 / 5053 / 6330); shares no code with flute.
/// Returns (toi, fdt instance id, sbn, esi, close object flag, payload offset).
pub fn decode(d: &[u8], sch_of: &dyn Fn(u128) -> Option<Scheme>) -> Option<(u128, u32, u32, u32, bool, usize)> {
    if d.len() < 4 {
        return None;
    }
    let c = ((d[0] >> 2) & 3) as usize;
    let s = ((d[1] >> 7) & 1) as usize;
    let o = ((d[1] >> 5) & 3) as usize;
    let h = ((d[1] >> 4) & 1) as usize;
    let close = d[1] & 1 == 1;
    let hdr = d[2] as usize * 4;
    let cci = 4 * (c + 1);
    let tsi = 4 * s + 2 * h;
    let toil = 4 * o + 2 * h;
    let mut off = 4 + cci + tsi;
    if d.len() < off + toil || hdr > d.len() {
        return None;
    }
    let mut toi: u128 = 0;
    for b in &d[off..off + toil] {
        toi = (toi << 8) | *b as u128;
    }
    off += toil;
    let mut fdt = 0u32;
    while off + 4 <= hdr {
        let het = d[off];
        let len = if het >= 128 { 4 } else { d[off + 1] as usize * 4 };
        if len == 0 || off + len > hdr {
            return None;
        }
        if het == 192 {
            fdt = u32::from_be_bytes([0, d[off + 1] & 0x0F, d[off + 2], d[off + 3]]);
        }
        off += len;
    }
    let p = &d[hdr..];
    let (sbn, esi, plen) = match sch_of(toi)? {
        Scheme::NoCode | Scheme::Raptor => {
            if p.len() < 4 {
                return None;
            }
            (u16::from_be_bytes([p[0], p[1]]) as u32, u16::from_be_bytes([p[2], p[3]]) as u32, 4)
        }
        Scheme::Rs => {
            if p.len() < 4 {
                return None;
            }
            (u32::from_be_bytes([0, p[0], p[1], p[2]]), p[3] as u32, 4)
        }
        Scheme::RaptorQ => {
            if p.len() < 4 {
                return None;
            }
            (p[0] as u32, u32::from_be_bytes([0, p[1], p[2], p[3]]), 4)
        }
        Scheme::RsUs => {
            if p.len() < 8 {
                return None;
            }
            (u32::from_be_bytes([p[0], p[1], p[2], p[3]]), u16::from_be_bytes([p[6], p[7]]) as u32, 8)
        }
    };
    Some((toi, fdt, sbn, esi, close, hdr + plen))
}

pub fn build(sp: &SessP) -> Result<Session, String> {
    let oti = make_oti(&sp.oti).ok_or("bad-default-oti")?;
    let mut pq = BTreeMap::new();
    for (i, m) in sp.mux.iter().enumerate() {
        pq.insert(i as u32, PriorityQueue::new(*m));
    }
    let config = sender::Config {
        fdt_duration: Duration::from_secs(3600),
        fdt_carousel_mode: car_mode(&sp.fcar).ok_or("bad-fcar")?,
        fdt_start_id: sp.fid0,
        fdt_cenc: cenc_of(&sp.fcenc).ok_or("bad-fcenc")?,
        fdt_inband_sct: true,
        fdt_publish_mode: if sp.full { FDTPublishMode::FullFDT } else { FDTPublishMode::ObjectsBeingTransferred },
        priority_queues: pq,
        interleave_blocks: sp.w.min(255) as u8,
        profile: sender::Profile::RFC6726,
        toi_max_length: sender::TOIMaxLength::ToiMax112,
        toi_initial_value: Some(sp.toi0),
        groups: if sp.sgrp { Some(vec!["sess-grp".to_string()]) } else { None },
    };
    let mut snd = sender::Sender::new(endpoint(), TSI, &oti, &config);
    let mut tmp: Option<std::path::PathBuf> = None;
    let mut objs = Vec::new();
    for (idx, o) in sp.objs.iter().enumerate() {
        let ooti = o.oti.unwrap_or(sp.oti);
        let tc = TransferConfig {
            max_transfer_count: o.m,
            carousel_mode: car_mode(&o.car),
            target_acquisition: None,
            cache_control: cache_control(&o.cc),
            groups: if o.grp { Some(obj_groups(idx)) } else { None },
            cenc: cenc_of(&o.cenc).ok_or("bad-cenc")?,
            inband_cenc: o.icenc,
            oti: match &o.oti {
                Some(x) => Some(make_oti(x).ok_or("bad-object-oti")?),
                None => None,
            },
            transfer_start_time: None,
            toi: None,
            optel_propagator: None,
            e_tag: if o.etag { Some(etag(idx)) } else { None },
            allow_immediate_stop_before_first_transfer: None,
        };
        let url = url::Url::parse(&location(o.loc.unwrap_or(idx))).unwrap();
        let ct = ctype(idx);
        let data: Option<Vec<u8>> = if o.sz <= (64 << 20) { Some(content(o)) } else { None };
        let desc: Result<Box<ObjectDesc>, String> = match o.src.as_str() {
            "buf" => ObjectDesc::create_from_buffer(data.clone().ok_or("too-big-for-buf")?, &ct, &url, o.md5, tc).map_err(|e| format!("{:?}", e)),
            "stream" => ObjectDesc::create_from_stream(
                Box::new(std::io::Cursor::new(data.clone().ok_or("too-big-for-buf")?)),
                &ct,
                &url,
                o.md5,
                tc,
            )
            .map_err(|e| format!("{:?}", e)),
            // a stream the application has already read from (e.g. to sniff the content type): the object is the
            // WHOLE stream (transfer length = stream length), every transfer has to start at offset 0
            "streamoff" => {
                let mut c = std::io::Cursor::new(data.clone().ok_or("too-big-for-buf")?);
                c.set_position((o.sz / 3 + 1).min(o.sz));
                ObjectDesc::create_from_stream(Box::new(c), &ct, &url, o.md5, tc).map_err(|e| format!("{:?}", e))
            }
            "sparse" => ObjectDesc::create_from_stream(
                Box::new(Sparse { len: o.sz, pos: 0, seed: o.seed, ck: o.ck }),
                &ct,
                &url,
                // the MD5 of a sparse source would read all of it
                o.md5 && o.sz <= (64 << 20),
                tc,
            )
            .map_err(|e| format!("{:?}", e)),
            "file" | "filecached" => {
                if tmp.is_none() {
                    tmp = Some(work_dir("src"));
                }
                let path = tmp.as_ref().unwrap().join(format!("src{}.bin", idx));
                std::fs::write(&path, data.as_ref().ok_or("too-big-for-buf")?).map_err(|e| e.to_string())?;
                ObjectDesc::create_from_file(&path, Some(&url), &ct, o.src == "filecached", o.md5, tc).map_err(|e| format!("{:?}", e))
            }
            _ => return Err("bad-src".into()),
        };
        let mut info = ObjInfo {
            p: o.clone(),
            idx,
            toi: None,
            tl: None,
            created: false,
            oti: ooti,
            content: data,
            md5: None,
            add_err: None,
            pl: 0,
            pll: 0,
        };
        match desc {
            Err(e) => {
                info.add_err = Some(format!("create: {}", e));
            }
            Ok(d) => {
                info.created = true;
                info.tl = Some(d.transfer_length);
                info.md5 = d.md5.clone();
                let q = o.q;
                match harness_core::guarded(AssertUnwindSafe(|| snd.add_object(q, d))) {
                    Ok(Ok(toi)) => info.toi = Some(toi),
                    Ok(Err(e)) => info.add_err = Some(format!("{:?}", e)),
                    Err(loc) => info.add_err = Some(format!("PANIC {}", loc)),
                }
            }
        }
        objs.push(info);
    }
    let mut now = t0();
    if sp.full {
        snd.publish(now).map_err(|e| format!("publish: {:?}", e))?;
    }
    // run
    let mut raw: Vec<(Vec<u8>, SystemTime)> = Vec::new();
    let mut idle = 0u32;
    let mut tail_left = sp.tail;
    let mut sender_panic = None;
    let mut stuck = false;
    let cap: usize = 400_000;
    loop {
        if sp.n > 0 && raw.len() as u64 >= sp.n {
            break;
        }
        if raw.len() >= cap {
            stuck = true;
            break;
        }
        match harness_core::guarded(AssertUnwindSafe(|| snd.read(now))) {
            Err(loc) => {
                sender_panic = Some(loc);
                break;
            }
            Ok(Some(d)) => {
                raw.push((d, now));
                now += Duration::from_micros(sp.dt);
                idle = 0;
            }
            Ok(None) => {
                if snd.nb_objects() == 0 {
                    if tail_left == 0 {
                        break;
                    }
                    tail_left -= 1;
                }
                idle += 1;
                if idle > 400 {
                    stuck = snd.nb_objects() != 0;
                    break;
                }
                now += Duration::from_micros(sp.idle.max(1));
            }
        }
    }
    // decode (stand-alone decoder; flute's own parser is only asked whether it accepts the packet)
    let mut schemes: BTreeMap<u128, Scheme> = BTreeMap::new();
    schemes.insert(0, sp.oti.sch);
    for o in &objs {
        if let Some(t) = o.toi {
            schemes.insert(t, o.oti.sch);
        }
    }
    let mut stream = Vec::new();
    let mut hash = 0u64;
    let mut sched: Vec<(char, u128, u64)> = Vec::new();
    let mut fdt_payloads: BTreeMap<u32, (u64, BTreeMap<(u32, u32), Vec<u8>>)> = BTreeMap::new();
    let mut fdt_order: Vec<u32> = Vec::new();
    let mut unparsable: Option<String> = None;
    for (d, t) in raw {
        let (toi, fdt_id, sbn, esi, close, poff) =
            decode(&d, &|t| schemes.get(&t).copied()).ok_or_else(|| "packet of the sender not decodable by the RFC decoder".to_string())?;
        match flute::core::alc::parse_alc_pkt(&d) {
            Ok(pkt) => {
                if toi == 0 {
                    let e = fdt_payloads.entry(fdt_id).or_insert_with(|| {
                        fdt_order.push(fdt_id);
                        (pkt.transfer_length.unwrap_or(0), BTreeMap::new())
                    });
                    e.1.entry((sbn, esi)).or_insert_with(|| d[poff..].to_vec());
                }
            }
            Err(e) => {
                if unparsable.is_none() {
                    unparsable = Some(format!("toi {}: {:?}", toi, e));
                }
            }
        }
        let paylen = d.len() - poff;
        hash = absorb(hash, toi);
        hash = absorb(hash, fdt_id as u128);
        hash = absorb(hash, sbn as u128);
        hash = absorb(hash, esi as u128);
        hash = absorb(hash, close as u128);
        let key = if toi == 0 { ('F', fdt_id as u128) } else { ('O', toi) };
        match sched.last_mut() {
            Some((k, id, n)) if *k == key.0 && *id == key.1 => *n += 1,
            _ => sched.push((key.0, key.1, 1)),
        }
        stream.push(Dgram { data: d, t, toi, fdt_id, sbn, esi, close, paylen });
    }
    // FDT instances: reassemble the source symbols, inflate, list the TOIs
    let mut fdts = Vec::new();
    let mut scrape_odd: Option<String> = None;
    for id in fdt_order {
        let (len, syms) = &fdt_payloads[&id];
        let (al, asm, nl, n) = rfc_partition(sp.oti.b as u128, *len as u128, sp.oti.e as u128);
        let mut bytes: Vec<u8> = Vec::new();
        let mut complete = true;
        for s in 0..n {
            let k = if s < nl { al } else { asm };
            for e in 0..k {
                match syms.get(&(s as u32, e as u32)) {
                    Some(p) => bytes.extend(p),
                    None => complete = false,
                }
            }
        }
        bytes.truncate(*len as usize);
        let xml: Vec<u8> = match sp.fcenc.as_str() {
            "null" => bytes,
            "zlib" => {
                let mut o = Vec::new();
                flate2::read::ZlibDecoder::new(&bytes[..]).read_to_end(&mut o).ok();
                o
            }
            "deflate" => {
                let mut o = Vec::new();
                flate2::read::DeflateDecoder::new(&bytes[..]).read_to_end(&mut o).ok();
                o
            }
            _ => {
                let mut o = Vec::new();
                flate2::read::GzDecoder::new(&bytes[..]).read_to_end(&mut o).ok();
                o
            }
        };
        let text = String::from_utf8_lossy(&xml).to_string();
        let mut tois = Vec::new();
        if complete {
            let mut rest = text.as_str();
            while let Some(i) = rest.find(" TOI=\"") {
                rest = &rest[i + 6..];
                let end = rest.find('"').unwrap_or(0);
                if let Ok(t) = rest[..end].parse::<u128>() {
                    tois.push(t);
                }
            }
        }
        tois.sort();
        if complete {
            // the scrape must account for every File element, and agree with flute's own parser where that accepts
            // the document (verif hook): a miss would silently make the C02 / C16 oracles vacuous
            let nfile = text.matches("<File ").count() + text.matches("<File>").count();
            if nfile != tois.len() {
                scrape_odd.get_or_insert(format!("FDT instance {}: {} File elements, {} TOI attributes read", id, nfile, tois.len()));
            }
            if let Some(sum) = flute::verif_hooks::fdt_parse_summary(&xml) {
                let mut theirs: Vec<u128> = sum.files.iter().flatten().filter_map(|f| f.toi.parse::<u128>().ok()).collect();
                theirs.sort();
                if theirs != tois {
                    scrape_odd.get_or_insert(format!("FDT instance {}: TOIs read {:?}, flute's parser {:?}", id, tois, theirs));
                }
            }
        }
        fdts.push(FdtInst { id, len: *len, tois });
    }
    // datagram lengths per object: one length for all packets, except the packet carrying the last
    // source symbol of the last block (shorter with No-Code)
    let mut pktlen_odd = None;
    let mut objs = objs;
    for oi in objs.iter_mut() {
        let toi = match oi.toi {
            Some(t) => t,
            None => continue,
        };
        let (al, asm, nl, n) = rfc_partition(oi.oti.b as u128, oi.tl.unwrap_or(0) as u128, oi.oti.e as u128);
        let last = if n == 0 { None } else { Some(((n - 1) as u32, ((if n - 1 < nl { al } else { asm }) - 1) as u32)) };
        let mut pl: Option<u64> = None;
        let mut pll: Option<u64> = None;
        for d in stream.iter().filter(|d| d.toi == toi) {
            let len = d.data.len() as u64;
            let slot = if Some((d.sbn, d.esi)) == last { &mut pll } else { &mut pl };
            match slot {
                None => *slot = Some(len),
                // (Raptor splits a block that is not a multiple of the symbol size its own way - benc's
                // finding D22 `raptor-symbol-split-unaligned-block`: symbol lengths are irregular there)
                Some(x) if *x != len && oi.oti.sch != Scheme::Raptor => {
                    pktlen_odd.get_or_insert(format!("toi {}: packet ({}, {}) has {} bytes, others {}", toi, d.sbn, d.esi, len, x));
                }
                _ => {}
            }
        }
        oi.pl = pl.or(pll).unwrap_or(0);
        oi.pll = pll.or(pl).unwrap_or(0);
    }
    Ok(Session { sp: sp.clone(), objs, stream, fdts, sched, hash, sender_panic, stuck, tmp, unparsable, pktlen_odd, scrape_odd })
}

impl Session {
    /// parameters with the derived sections filled in
    pub fn derived(&self) -> SessP {
        let mut sp = self.sp.clone();
        for (o, i) in sp.objs.iter_mut().zip(self.objs.iter()) {
            o.toi = i.toi;
            o.tl = i.tl;
            o.pl = i.pl;
            o.pll = i.pll;
        }
        sp.fdts = self.fdts.clone();
        sp.sched = self.sched.clone();
        sp
    }
}
