//! The engine proper: executes operation lines against the real code and evaluates the three
//! property oracles (C01, C02, C16) on the receiver's writer callbacks.
use crate::params::*;
use crate::rx::*;
use crate::sess::*;
use flute::receiver::writer::ObjectCacheControl;
use harness_core::Oracle;
use std::collections::{BTreeMap, BTreeSet};
use std::time::Duration;

pub struct Core {
    pub sess: Option<Session>,
}

/// decodability rule of the property text: RS schemes any k distinct symbols, others the k source symbols
fn block_ok(sch: Scheme, k: u128, p: u128, got: &BTreeSet<u32>) -> bool {
    match sch {
        Scheme::Rs | Scheme::RsUs => got.iter().filter(|e| (**e as u128) < k + p).count() as u128 >= k,
        _ => (0..k).all(|e| got.contains(&(e as u32))),
    }
}

fn ks_of(o: &OtiP, tl: u64) -> Vec<u128> {
    let (al, asm, nl, n) = rfc_partition(o.b as u128, tl as u128, o.e as u128);
    (0..n).map(|s| if s < nl { al } else { asm }).collect()
}

impl Core {
    pub fn new() -> Core {
        Core { sess: None }
    }

    pub fn exec(&mut self, op: &str, o: &mut Oracle) -> String {
        let op = op.strip_prefix("e2e ").unwrap_or(op);
        let (cmd, rest) = op.split_once(' ').unwrap_or((op, ""));
        match cmd {
            "derive" => {
                self.sess = None;
                match SessP::parse(rest) {
                    None => "bad-op".into(),
                    Some(sp) => match build(&sp) {
                        Err(e) => format!("ERR {}", e),
                        Ok(s) => {
                            let line = s.derived().fmt(true);
                            self.sess = Some(s);
                            line
                        }
                    },
                }
            }
            "session" => {
                let sp = match SessP::parse(rest) {
                    None => {
                        self.sess = None;
                        return "bad-op".into();
                    }
                    Some(sp) => sp,
                };
                // the session just derived is reused; otherwise (replay) rebuild it.  The FDT's File
                // order comes from a HashMap, so a *compressed* FDT's length can differ from run to
                // run: rebuild until the derived facts are those of the operation line.
                let reuse = matches!(&self.sess, Some(s) if s.derived() == sp);
                if !reuse {
                    self.sess = None;
                    let mut last_err = None;
                    for _ in 0..300 {
                        match build(&sp) {
                            Err(e) => {
                                last_err = Some(e);
                                break;
                            }
                            Ok(s) => {
                                let same = s.derived() == sp;
                                self.sess = Some(s);
                                if same {
                                    break;
                                }
                            }
                        }
                    }
                    if let Some(e) = last_err {
                        return format!("ERR {}", e.replace(' ', "_"));
                    }
                }
                let s = self.sess.as_ref().unwrap();
                if s.derived() != sp {
                    self.sess = None;
                    return "derived-mismatch".to_string();
                }
                if let Some(p) = &s.sender_panic {
                    self.oracle_sender_panic(s, p, o);
                    return "PANIC".to_string();
                }
                if let Some(u) = &s.unparsable {
                    o.fail(
                        &format!("{}:unparsable-own-packet", s.sp.prop),
                        &format!("flute's receiver-side parser rejects a packet of flute's sender: {}", u),
                    );
                }
                if let Some(u) = &s.scrape_odd {
                    // harness error, loud: the oracles of C02 / C16 rest on the File list of every FDT instance
                    o.fail(&format!("{}:harness-fdt-file-list", s.sp.prop), &format!("the harness could not read the File list of an FDT instance: {}", u));
                }
                if let Some(u) = &s.pktlen_odd {
                    o.fail(&format!("{}:pkt-length-model", s.sp.prop), &format!("datagram lengths of an object do not follow the rule the model assumes: {}", u));
                }
                let refused: Vec<String> = s.objs.iter().filter(|x| x.created && x.toi.is_none()).map(|x| x.idx.to_string()).collect();
                self.oracle_refusal(s, o);
                format!(
                    "ok n={} h={} refused={}{}",
                    s.stream.len(),
                    s.hash,
                    if refused.is_empty() { "-".to_string() } else { refused.join(",") },
                    if s.stuck { " stuck" } else { "" }
                )
            }
            // end of the n-th consecutive full cycle from the start of the stream (default 1)
            "cycle" => match &self.sess {
                None => "no-session".into(),
                Some(s) => {
                    let k: usize = rest.trim().parse().unwrap_or(1);
                    let mut pos = Some(0usize);
                    for _ in 0..k.max(1) {
                        pos = pos.and_then(|i| cycle_end(s, i));
                    }
                    pos.map(|x| x.to_string()).unwrap_or("-".into())
                }
            },
            "stream" => match &self.sess {
                None => "no-session".into(),
                Some(s) => s
                    .stream
                    .iter()
                    .map(|d| format!("{}:{}:{}:{}:{}", d.toi, d.fdt_id, d.sbn, d.esi, d.close as u8))
                    .collect::<Vec<_>>()
                    .join(" "),
            },
            "full" | "probe" | "mask" | "mprobe" | "dup" | "join" | "jprobe" | "fprobe" => {
                let s = match &self.sess {
                    Some(s) => s,
                    None => return "no-session".into(),
                };
                let n = s.stream.len();
                let sel: Vec<usize> = match cmd {
                    "full" | "probe" => (0..n).collect(),
                    "mask" | "mprobe" => {
                        if rest.len() != n || !rest.chars().all(|c| c == '0' || c == '1') {
                            return "bad-op".into();
                        }
                        rest.chars().enumerate().filter(|(_, c)| *c == '1').map(|(i, _)| i).collect()
                    }
                    "dup" => {
                        if rest.len() != n || !rest.chars().all(|c| c.is_ascii_digit()) {
                            return "bad-op".into();
                        }
                        let mut v = Vec::new();
                        for (i, c) in rest.chars().enumerate() {
                            for _ in 0..c.to_digit(10).unwrap() {
                                v.push(i);
                            }
                        }
                        v
                    }
                    _ => {
                        let off: usize = match rest.trim().parse() {
                            Ok(x) => x,
                            Err(_) => return "bad-op".into(),
                        };
                        if off > n {
                            return "bad-op".into();
                        }
                        match deadline(s, off) {
                            None => return if cmd == "jprobe" || cmd == "fprobe" { "done".into() } else { "short".into() },
                            Some(d) => (off..d).collect(),
                        }
                    }
                };
                // `fprobe`: a late join with a one-shot storage fault (the first open() of every TOI answers Err)
                let rx = run_rx(s, &sel, cmd == "fprobe");
                // `probe`: the run is judged by the oracle only (inputs in the region of a defect whose
                // effect depends on third-party library internals: D15 inflate hang, D18 garbage inflate)
                let obs = if cmd == "probe" || cmd == "jprobe" || cmd == "mprobe" || cmd == "fprobe" { "done".to_string() } else { observe(s, &rx) };
                if let Some(p) = &rx.panic {
                    o.fail(&format!("{}:receiver-panic", s.sp.prop), &format!("receiver panics at {}", p));
                    return obs;
                }
                match s.sp.prop.as_str() {
                    "C01" => {
                        if cmd == "full" || cmd == "probe" {
                            self.oracle_c01(s, &rx, &sel, o)
                        }
                    }
                    "C02" => self.oracle_c02(s, &rx, &sel, o),
                    "C16" => {
                        if cmd == "join" || cmd == "jprobe" || cmd == "fprobe" {
                            self.oracle_c16(s, &rx, &sel, o)
                        }
                    }
                    _ => {}
                }
                obs
            }
            _ => "bad-op".into(),
        }
    }

    /// D23/D26 observed on the sender's own output: a Raptor object has a block of 2 or 3 source
    /// symbols and the sender emitted NO packet of that block (block creation failed, the block
    /// encoder stopped there)
    fn obj_truncated(&self, s: &Session, oi: &ObjInfo) -> bool {
        let toi = match oi.toi {
            Some(t) => t,
            None => return false,
        };
        oi.oti.sch == Scheme::Raptor
            && ks_of(&oi.oti, oi.tl.unwrap_or(0))
                .iter()
                .enumerate()
                .any(|(b, k)| (*k == 2 || *k == 3) && !s.stream.iter().any(|d| d.toi == toi && d.sbn == b as u32))
    }

    /// the same for an FDT instance (an object coded with the session's default OTI)
    fn fdt_truncated(&self, s: &Session, f: &FdtInst) -> bool {
        s.sp.oti.sch == Scheme::Raptor
            && ks_of(&s.sp.oti, f.len)
                .iter()
                .enumerate()
                .any(|(b, k)| (*k == 2 || *k == 3) && !s.stream.iter().any(|d| d.toi == 0 && d.fdt_id == f.id && d.sbn == b as u32))
    }

    /// the sender-side mechanism of finding D26 explains that `oi` is not delivered: the object itself was
    /// sent truncated, or every FDT instance the sender emitted was (so nothing announces the object)
    fn raptor_lt4_explains(&self, s: &Session, oi: &ObjInfo) -> bool {
        // (since /repo 6808824 a source whose FIRST block cannot be encoded sends nothing at all: a session whose
        // default OTI is Raptor and that never emitted a single FDT packet)
        // (the object half - a 2-3-symbol block of the object itself - is repaired: add_object refuses such objects
        // since /repo 42b2a1c; if that regressed the failure is a violation, not this class)
        let _ = oi;
        (!s.fdts.is_empty() && s.fdts.iter().all(|f| self.fdt_truncated(s, f)))
            || (s.sp.oti.sch == Scheme::Raptor && !s.stream.iter().any(|d| d.toi == 0))
    }

    fn oracle_sender_panic(&self, s: &Session, p: &str, o: &mut Oracle) {
        // finding D26: creation of a FIRST block of 2 or 3 Raptor symbols fails and `read` hits the
        // debug_assert of blockencoder.rs; any other panic (other location, other input) is new
        let first_lt4 = |oti: &OtiP, tl: u64| oti.sch == Scheme::Raptor && ks_of(oti, tl).first().map(|k| *k == 2 || *k == 3).unwrap_or(false);
        let input = s.fdts.iter().any(|f| first_lt4(&s.sp.oti, f.len))
            || (s.sp.oti.sch == Scheme::Raptor && s.fdts.is_empty());
        let cls = if p.contains("blockencoder.rs") && input && s.sp.prop == "C01" {
            "C01:raptor-block-lt4".to_string()
        } else {
            format!("{}:sender-panic", s.sp.prop)
        };
        o.fail(&cls, &format!("Sender::read panics at {}", p));
    }

    /// C01 second sentence: an object the wire format cannot carry is refused when it is added,
    /// and only such objects are refused
    fn oracle_refusal(&self, s: &Session, o: &mut Oracle) {
        if s.sp.prop != "C01" {
            return;
        }
        for oi in &s.objs {
            // a panic inside add_object is not a refusal
            if let Some(e) = &oi.add_err {
                if e.starts_with("PANIC") {
                    o.fail("C01:add-object-panic", &format!("add_object panics for object {}: {}", oi.idx, e));
                }
            }
            if !oi.created {
                continue;
            }
            let tl = oi.tl.unwrap() as u128;
            let too_large = tl > scheme_max_tl(&oi.oti);
            if too_large && oi.toi.is_some() {
                o.fail(
                    "C01:accepted-too-large",
                    &format!("object {} of transfer length {} accepted, scheme maximum {}", oi.idx, tl, scheme_max_tl(&oi.oti)),
                );
            }
            if oi.toi.is_none() && s.stream.iter().any(|d| d.toi != 0 && !s.objs.iter().any(|x| x.toi == Some(d.toi))) {
                o.fail("C01:refused-but-sent", "packets of a refused object were emitted");
            }
        }
    }

    fn expected_groups(&self, s: &Session, oi: &ObjInfo) -> Option<Vec<String>> {
        let mut g = Vec::new();
        if s.sp.sgrp {
            g.push("sess-grp".to_string());
        }
        if oi.p.grp {
            g.extend(obj_groups(oi.idx));
        }
        if g.is_empty() {
            None
        } else {
            Some(g)
        }
    }

    fn check_meta(&self, s: &Session, oi: &ObjInfo, r: &Rec) -> Vec<(&'static str, String)> {
        let mut f = Vec::new();
        let m = &r.meta;
        let loc = location(oi.p.loc.unwrap_or(oi.idx));
        if m.content_location != loc {
            f.push(("C01:meta-location", format!("{} != {}", m.content_location, loc)));
        }
        if m.content_length != Some(oi.p.sz as usize) {
            f.push(("C01:meta-length", format!("{:?} != {}", m.content_length, oi.p.sz)));
        }
        if m.transfer_length != oi.tl.map(|x| x as usize) {
            f.push(("C01:meta-transfer-length", format!("{:?} != {:?}", m.transfer_length, oi.tl)));
        }
        if m.content_type != Some(ctype(oi.idx)) {
            f.push(("C01:meta-type", format!("{:?} != {}", m.content_type, ctype(oi.idx))));
        }
        if m.md5 != oi.md5 {
            f.push(("C01:meta-md5", format!("{:?} != {:?}", m.md5, oi.md5)));
        }
        let eg = self.expected_groups(s, oi);
        if m.groups != eg {
            f.push(("C01:meta-groups", format!("{:?} != {:?}", m.groups, eg)));
        }
        let et = if oi.p.etag { Some(etag(oi.idx)) } else { None };
        if m.e_tag != et {
            f.push(("C01:meta-etag", format!("{:?} != {:?}", m.e_tag, et)));
        }
        let cc_ok = match (oi.p.cc.as_str(), &m.cache_control) {
            ("-", ObjectCacheControl::ExpiresAtHint(_)) => true,
            ("nocache", ObjectCacheControl::NoCache) => true,
            ("maxstale", ObjectCacheControl::MaxStale) => true,
            (x, ObjectCacheControl::ExpiresAt(t)) if x.starts_with("exp") => {
                let secs: u64 = x[3..].parse().unwrap_or(0);
                let lo = t0() + Duration::from_secs(secs) - Duration::from_secs(1);
                let last = s.stream.last().map(|d| d.t).unwrap_or(t0());
                let hi = last + Duration::from_secs(secs) + Duration::from_secs(1);
                *t >= lo && *t <= hi
            }
            _ => false,
        };
        if !cc_ok {
            f.push(("C01:meta-cache-control", format!("{:?} for sender directive {}", m.cache_control, oi.p.cc)));
        }
        f
    }

    fn cache_bytes(&self, s: &Session) -> u128 {
        if s.sp.maxc == 0 {
            10 * 1024 * 1024
        } else {
            s.sp.maxc as u128
        }
    }

    /// byte length the receiver accounts per source block
    fn block_bytes(&self, oi: &ObjInfo) -> Vec<u128> {
        let tl = oi.tl.unwrap_or(0) as u128;
        let e = oi.oti.e as u128;
        let mut off = 0u128;
        ks_of(&oi.oti, oi.tl.unwrap_or(0))
            .iter()
            .map(|k| {
                let full = k * e;
                let len = if oi.oti.sch == Scheme::RsUs { full } else { full.min(tl.saturating_sub(off)) };
                off += full;
                len
            })
            .collect()
    }

    /// what the receiver has to hold of the object without a writer exceeds object_max_cache_size: the bytes of all its
    /// blocks (in-band FTI: block allocation), the datagrams of one whole transfer (FDT-only OTI: packet cache)
    fn larger_than_cache(&self, s: &Session, oi: &ObjInfo) -> bool {
        let cache = self.cache_bytes(s);
        if oi.oti.ifti {
            self.block_bytes(oi).iter().sum::<u128>() > cache
        } else {
            let mut seen: BTreeSet<(u32, u32)> = BTreeSet::new();
            let mut bytes = 0u128;
            for d in s.stream.iter().filter(|d| Some(d.toi) == oi.toi) {
                if seen.insert((d.sbn, d.esi)) {
                    bytes += d.data.len() as u128;
                }
            }
            bytes >= cache
        }
    }

    /// D32: before the FDT instance completes (fed position `fpos`) the receiver had to hold more of the
    /// object than object_max_cache_size allows - in-band FTI: a third or later block cannot be allocated
    /// next to the blocks already held (no writer yet, nothing is written); FDT-only OTI: the packet cache
    /// is full when a further packet arrives
    fn held_before_fdt_exceeds_cache(&self, s: &Session, oi: &ObjInfo, sel: &[usize], fpos: usize) -> bool {
        let toi = match oi.toi {
            Some(t) => t,
            None => return false,
        };
        let cache = self.cache_bytes(s);
        let pre: Vec<&Dgram> = sel[..fpos.min(sel.len())].iter().map(|&i| &s.stream[i]).filter(|d| d.toi == toi).collect();
        if oi.oti.ifti {
            let bl = self.block_bytes(oi);
            let mut held: Vec<u32> = Vec::new();
            let mut bytes = 0u128;
            for d in pre {
                if held.contains(&d.sbn) {
                    continue;
                }
                let len = bl.get(d.sbn as usize).copied().unwrap_or(0);
                if held.len() >= 2 && bytes + len > cache {
                    return true;
                }
                held.push(d.sbn);
                bytes += len;
            }
            false
        } else {
            let mut bytes = 0u128;
            for d in pre {
                if bytes >= cache {
                    return true;
                }
                bytes += d.data.len() as u128;
            }
            false
        }
    }

    fn max_block_bytes(&self, oi: &ObjInfo) -> u128 {
        ks_of(&oi.oti, oi.tl.unwrap_or(0)).iter().max().copied().unwrap_or(0) * oi.oti.e as u128
    }

    fn oracle_c01(&self, s: &Session, rx: &RxResult, sel: &[usize], o: &mut Oracle) {
        // on a clean channel push_data has no reason to answer Err - unless a receiver limit binds (F22) or
        // one of the re-creation findings (D28 no-cache, D29 OBT gc: an object re-created in the middle of a
        // transfer is interrupted by the close-object packet) or D26 (truncated object) is in play
        if rx.push_err > 0 {
            let cache = self.cache_bytes(s);
            let excused = s.objs.iter().any(|oi| {
                oi.toi.is_some()
                    && ((s.sp.w as u128 + 1) * self.max_block_bytes(oi) > cache
                        || oi.p.cc == "nocache"
                        || (!s.sp.full && (oi.p.m > 1 || oi.p.car != Car::None))
                        || self.raptor_lt4_explains(s, oi))
            });
            // C01 speaks of copies, not of return values: an `Err` is reported only when it goes with an object that
            // was not delivered exactly as often as it should (otherwise it is counted, see `push_err`)
            let all_exact = s.objs.iter().filter(|oi| oi.toi.is_some()).all(|oi| {
                let nc: usize = rx.recs.iter().filter(|r| Some(r.toi) == oi.toi).map(|r| count(r, 'c')).sum();
                let carousel = oi.p.car != Car::None;
                let want = if s.sp.ro || carousel { 1 } else { (oi.p.m as usize).max(1) };
                if carousel && !s.sp.ro { nc >= 1 } else { nc == want }
            });
            if !excused && !all_exact {
                o.fail("C01:push-error", &format!("Receiver::push_data answered Err {} times on a clean channel", rx.push_err));
            }
        }
        if s.stuck {
            o.fail("C01:sender-stuck", "the sender never finishes its transfers");
            return;
        }
        for oi in &s.objs {
            let toi = match oi.toi {
                Some(t) => t,
                None => continue,
            };
            // receiver-side resource hypothesis (C17 demands the limit): the configured object cache
            // holds the interleave window
            let cache = if s.sp.maxc == 0 { 10u128 * 1024 * 1024 } else { s.sp.maxc as u128 };
            // (only the liveness / count / no-error-call checks depend on it: what IS completed must
            // be exact whatever the limits)
            let limit_binds = (s.sp.w as u128 + 1) * self.max_block_bytes(oi) > cache;
            let content = oi.content.as_ref().unwrap();
            let recs: Vec<_> = rx.recs.iter().filter(|r| r.toi == toi).collect();
            let nc: usize = recs.iter().map(|r| count(r, 'c')).sum();
            let nerr: usize = recs.iter().map(|r| count(r, 'e') + count(r, 'i')).sum();
            let carousel = oi.p.car != Car::None;
            // max_transfer_count = 0 still gives one transfer
            let want = if s.sp.ro || carousel { 1 } else { (oi.p.m as usize).max(1) };
            let mut fails: Vec<(String, String)> = Vec::new();
            if limit_binds {
            } else if nc == 0 {
                fails.push(("C01:not-delivered".into(), format!("object {} (toi {}) never completed; calls {:?}", oi.idx, toi, recs.iter().map(|r| r.calls.borrow().iter().collect::<String>()).collect::<Vec<_>>())));
            } else if (!carousel && nc != want) || (carousel && s.sp.ro && nc != 1) {
                let cls = if oi.p.cc == "nocache" && s.sp.ro && nc > 1 { "C01:no-cache-redelivered" } else if nc > want { "C01:delivered-too-often" } else { "C01:delivered-too-seldom" };
                fails.push((cls.into(), format!("object {} (toi {}) completed {} times, expected {} (receive-once {}, {} transfers)", oi.idx, toi, nc, want, s.sp.ro, oi.p.m)));
            }
            if nerr > 0 && !limit_binds {
                fails.push(("C01:error-call".into(), format!("object {} (toi {}): {} error/interrupted calls on a clean channel", oi.idx, toi, nerr)));
            }
            for r in &recs {
                if count(r, 'c') > 0 {
                    if *r.data.borrow() != *content {
                        fails.push(("C01:bytes".into(), format!("object {} (toi {}): completed with {} bytes != the {} bytes given to the sender", oi.idx, toi, r.data.borrow().len(), content.len())));
                    }
                    for (c, d) in self.check_meta(s, oi, r) {
                        fails.push((c.into(), format!("object {} (toi {}): {}", oi.idx, toi, d)));
                    }
                }
            }
            // --- known findings: a class is used only when the failure IS that mechanism ---
            let calls_of = |r: &Rec| r.calls.borrow().iter().filter(|c| **c != 'w').collect::<String>();
            let clean_complete = |r: &Rec| calls_of(r) == "oc" && *r.data.borrow() == *content;
            // D28 (receiver.rs check_object_state does not register a no-cache object as completed): the
            // first writer completes with the right bytes, every later writer of the TOI is a further exact
            // completion or is cut by the close-object packet (`interrupted`; the last one may still be open when
            // the stream ends); no `error` call anywhere
            let d28 = oi.p.cc == "nocache"
                && recs.len() >= 2
                && clean_complete(recs[0])
                && recs[1..].iter().enumerate().all(|(n, r)| clean_complete(r) || calls_of(r) == "oi" || (n + 2 == recs.len() && calls_of(r) == "o"));
            // D29 (receiver.rs gc_object_completed forgets a TOI the newest FDT instance does not list):
            // ObjectsBeingTransferred + receive-once, at most one copy per transfer, every writer an exact
            // completion, and an FDT instance not listing the TOI was emitted
            let d29 = !s.sp.full
                && s.sp.ro
                && (oi.p.m > 1 || carousel)
                && recs.iter().all(|r| clean_complete(r))
                && (carousel || nc <= (oi.p.m as usize).max(1))
                && s.fdts.iter().any(|f| !f.tois.contains(&toi));
            // D26: sender side, see `raptor_lt4_explains`; it can explain a missing delivery and the writer
            // cut by the close-object flag, never wrong bytes or an extra copy
            let d26 = nc == 0 && self.raptor_lt4_explains(s, oi);
            for (c, d) in fails {
                let cls = match c.as_str() {
                    "C01:delivered-too-often" if d29 => "C01:obt-gc-redelivered".to_string(),
                    "C01:delivered-too-often" | "C01:error-call" | "C01:no-cache-redelivered" if d28 => "C01:no-cache-redelivered".to_string(),
                    "C01:no-cache-redelivered" => "C01:delivered-too-often".to_string(),
                    "C01:not-delivered" | "C01:error-call" if d26 => "C01:raptor-block-lt4".to_string(),
                    _ => c,
                };
                o.fail(&cls, &d);
            }
        }
        if s.sp.wr == "fs" {
            match run_fs(s, sel) {
                Err(e) => o.fail("C01:fs-run", &e),
                Ok(files) => {
                    for (toi, bytes) in files {
                        let oi = s.objs.iter().find(|x| x.toi == Some(toi)).unwrap();
                        let eff = |x: &ObjInfo| x.p.loc.unwrap_or(x.idx);
                        let shared = s.objs.iter().filter(|x| x.toi.is_some() && eff(x) == eff(oi)).count() > 1;
                        // when the writer of this TOI completed for the last time (fed position), if its last writer completed
                        let last_done = |t: u128| -> Option<usize> {
                            let recs: Vec<_> = rx.recs.iter().filter(|r| r.toi == t).collect();
                            match recs.last() {
                                Some(r) if count(r, 'c') > 0 => r.done_at.get(),
                                _ => None,
                            }
                        };
                        let completed = rx.recs.iter().any(|r| r.toi == toi && count(r, 'c') > 0);
                        let mine = match last_done(toi) {
                            Some(d) => d,
                            None => continue,
                        };
                        if !completed {
                            continue;
                        }
                        if shared {
                            // successive versions of one file: the file holds the version completed LAST; every writer of
                            // the location must have ended before (no writer still open / failed in between is judged)
                            let group: Vec<&ObjInfo> = s.objs.iter().filter(|x| x.toi.is_some() && eff(x) == eff(oi)).collect();
                            let all_done = group.iter().all(|x| {
                                let recs: Vec<_> = rx.recs.iter().filter(|r| Some(r.toi) == x.toi).collect();
                                !recs.is_empty() && recs.iter().all(|r| count(r, 'c') > 0)
                            });
                            let newest = group.iter().filter_map(|x| last_done(x.toi.unwrap())).max();
                            if !all_done || newest != Some(mine) {
                                continue;
                            }
                            match bytes {
                                None => o.fail("C01:fs-file-ne-object", &format!("object {} (last completed version of {}): no file under the destination directory", oi.idx, location(eff(oi)))),
                                Some(b) => {
                                    if b != *oi.content.as_ref().unwrap() {
                                        o.fail(
                                            "C01:fs-file-ne-object",
                                            &format!(
                                                "{}: the file has {} bytes, the version completed last (object {}) has {} - the file must hold exactly the last completed version",
                                                location(eff(oi)),
                                                b.len(),
                                                oi.idx,
                                                oi.content.as_ref().unwrap().len()
                                            ),
                                        )
                                    }
                                }
                            }
                            continue;
                        }
                        match bytes {
                            None => o.fail("C01:fs-missing", &format!("object {}: no file at {} under the destination directory", oi.idx, location(oi.idx))),
                            Some(b) => {
                                if b != *oi.content.as_ref().unwrap() {
                                    o.fail("C01:fs-bytes", &format!("object {}: file has {} bytes != the object", oi.idx, b.len()))
                                }
                            }
                        }
                    }
                }
            }
        }
    }

    /// position (in `sel`) at which some FDT instance listing `toi` is complete, by symbol counting
    fn fdt_complete_pos(&self, s: &Session, sel: &[usize], toi: u128) -> Option<usize> {
        let mut got: BTreeMap<u32, BTreeMap<u32, BTreeSet<u32>>> = BTreeMap::new();
        for (n, &i) in sel.iter().enumerate() {
            let d = &s.stream[i];
            if d.toi != 0 {
                continue;
            }
            let f = match s.fdts.iter().find(|f| f.id == d.fdt_id) {
                Some(f) => f,
                None => continue,
            };
            if !f.tois.contains(&toi) {
                continue;
            }
            got.entry(d.fdt_id).or_default().entry(d.sbn).or_default().insert(d.esi);
            let ks = ks_of(&s.sp.oti, f.len);
            let g = &got[&d.fdt_id];
            let empty = BTreeSet::new();
            if ks.iter().enumerate().all(|(b, k)| block_ok(s.sp.oti.sch, *k, s.sp.oti.p as u128, g.get(&(b as u32)).unwrap_or(&empty))) {
                return Some(n);
            }
        }
        None
    }

    fn oracle_c02(&self, s: &Session, rx: &RxResult, sel: &[usize], o: &mut Oracle) {
        for oi in &s.objs {
            let toi = match oi.toi {
                Some(t) => t,
                None => continue,
            };
            let content = oi.content.as_ref().unwrap();
            // safety half (belongs to C03, reported here because a wrong copy is no delivery)
            for r in rx.recs.iter().filter(|r| r.toi == toi) {
                if count(r, 'c') > 0 && *r.data.borrow() != *content {
                    o.fail("C02:bytes", &format!("object {} completed with wrong bytes", oi.idx));
                }
            }
            // hypothesis of the property
            let fpos = self.fdt_complete_pos(s, sel, toi);
            let mut got: BTreeMap<u32, BTreeSet<u32>> = BTreeMap::new();
            let mut any = false;
            for &i in sel {
                let d = &s.stream[i];
                if d.toi == toi {
                    got.entry(d.sbn).or_default().insert(d.esi);
                    any = true;
                }
            }
            let ks = ks_of(&oi.oti, oi.tl.unwrap_or(0));
            let empty = BTreeSet::new();
            let blocks_ok = ks.iter().enumerate().all(|(b, k)| block_ok(oi.oti.sch, *k, oi.oti.p as u128, got.get(&(b as u32)).unwrap_or(&empty)));
            // an empty object has no block: its lone packet must arrive
            let hyp = fpos.is_some() && blocks_ok && (oi.tl != Some(0) || any);
            if !hyp {
                continue;
            }
            let delivered = rx.recs.iter().any(|r| r.toi == toi && count(r, 'c') > 0 && *r.data.borrow() == *content);
            if delivered {
                continue;
            }
            // classification
            let mine: Vec<&Dgram> = s.stream.iter().filter(|d| d.toi == toi).collect();
            let early_b = mine.iter().enumerate().any(|(n, d)| d.close && n + 1 != mine.len());
            let first_b = sel.iter().position(|&i| s.stream[i].toi == toi && s.stream[i].close);
            let cls = if early_b && oi.tl != Some(0) {
                "C02:D3-close-flag-early"
            } else if first_b.is_some() && fpos.unwrap() > first_b.unwrap() {
                "C02:fdt-after-close"
            } else if self.larger_than_cache(s, oi) && self.held_before_fdt_exceeds_cache(s, oi, sel, fpos.unwrap()) {
                "C02:object-larger-than-cache-before-fdt"
            } else {
                "C02:not-delivered"
            };
            o.fail(
                cls,
                &format!(
                    "object {} (toi {}, {} {}x{} p{} w{}) recoverable (FDT whole at fed packet {}, every block has its symbols) but not delivered; calls {:?}",
                    oi.idx,
                    toi,
                    oi.oti.sch.name(),
                    oi.oti.e,
                    oi.oti.b,
                    oi.oti.p,
                    s.sp.w,
                    fpos.unwrap(),
                    rx.recs.iter().filter(|r| r.toi == toi).map(|r| r.calls.borrow().iter().collect::<String>()).collect::<Vec<_>>()
                ),
            );
        }
    }

    fn oracle_c16(&self, s: &Session, rx: &RxResult, sel: &[usize], o: &mut Oracle) {
        for oi in &s.objs {
            let toi = match oi.toi {
                Some(t) => t,
                None => continue,
            };
            if oi.p.car == Car::None {
                continue;
            }
            let content = oi.content.as_ref().unwrap();
            for r in rx.recs.iter().filter(|r| r.toi == toi) {
                if count(r, 'c') > 0 && *r.data.borrow() != *content {
                    o.fail("C16:bytes", &format!("object {} completed with wrong bytes", oi.idx));
                }
            }
            let delivered = rx.recs.iter().any(|r| r.toi == toi && count(r, 'c') > 0 && *r.data.borrow() == *content);
            if !delivered {
                // D33: the bytes of all blocks of the object exceed object_max_cache_size (a late joiner has
                // to hold the blocks that follow the first incomplete one); the writer only ever saw open / error
                let total: u128 = self.block_bytes(oi).iter().sum();
                let only_oe = rx
                    .recs
                    .iter()
                    .filter(|r| r.toi == toi)
                    .all(|r| matches!(r.calls.borrow().iter().filter(|c| **c != 'w').collect::<String>().as_str(), "o" | "oe"));
                // ... and the join fell INSIDE the object: the first packet of the TOI that was fed is not the start of a
                // transfer, or packets of the TOI were fed before an FDT instance listing it was complete
                let first = sel.iter().map(|&i| &s.stream[i]).find(|d| d.toi == toi);
                let mid_transfer = first.map(|d| !(d.sbn == 0 && d.esi == 0)).unwrap_or(false);
                let first_pos = sel.iter().position(|&i| s.stream[i].toi == toi);
                let before_fdt = match (self.fdt_complete_pos(s, sel, toi), first_pos) {
                    (Some(f), Some(p)) => p < f,
                    (None, Some(_)) => true,
                    _ => false,
                };
                let _ = total;
                let cls = if self.larger_than_cache(s, oi) && only_oe && (mid_transfer || before_fdt) {
                    "C16:object-larger-than-cache"
                } else {
                    "C16:not-delivered"
                };
                o.fail(
                    cls,
                    &format!(
                        "carouselled object {} (toi {}, tl {:?}, {} ifti={}) not delivered within two full cycles after the join; calls {:?}",
                        oi.idx,
                        toi,
                        oi.tl,
                        oi.oti.sch.name(),
                        oi.oti.ifti,
                        rx.recs.iter().filter(|r| r.toi == toi).map(|r| r.calls.borrow().iter().collect::<String>()).collect::<Vec<_>>()
                    ),
                );
            }
        }
    }
}

/// End (exclusive) of the first *full cycle* starting at stream position `i`: the shortest prefix of
/// `stream[i..]` that contains, for the FDT and for every carouselled object, one complete transfer
/// begun at or after `i`.  A transfer begins with the packet (SBN 0, ESI 0) and ends right before
/// the same source's next (SBN 0, ESI 0) packet.
pub fn cycle_end(s: &Session, i: usize) -> Option<usize> {
    let mut sources: Vec<u128> = vec![0];
    for o in &s.objs {
        if let (Some(t), true) = (o.toi, o.p.car != Car::None) {
            sources.push(t);
        }
    }
    let mut end = i;
    for src in sources {
        // first transfer start at or after i
        let mut start = None;
        let mut last = None;
        let mut closed = false;
        for (n, d) in s.stream.iter().enumerate().skip(i) {
            if d.toi != src {
                continue;
            }
            let is_start = d.sbn == 0 && d.esi == 0;
            if start.is_none() {
                if is_start {
                    start = Some(n);
                    last = Some(n);
                }
            } else if is_start {
                closed = true;
                break;
            } else {
                last = Some(n);
            }
        }
        if !closed {
            return None;
        }
        end = end.max(last.unwrap() + 1);
    }
    Some(end)
}

pub fn deadline(s: &Session, i: usize) -> Option<usize> {
    cycle_end(s, cycle_end(s, i)?)
}
