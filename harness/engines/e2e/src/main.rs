//! Engine `e2e`: end-to-end session properties C01 (clean channel), C02 (loss recovery) and
//! C16 (carousel late join).  REAL `flute::sender::Sender` -> datagrams -> channel (mask /
//! multiplicities / join offset) -> REAL `flute::receiver::Receiver` / `MultiReceiver` with a
//! recording object writer.  Every operation runs in a child process under a watchdog.
mod core;
mod gen;
mod params;
mod proxy;
mod rx;
mod sess;

use gen::*;
use harness_core::{Ctx, Engine, Oracle};
use std::io::{BufRead, Write};
use std::sync::atomic::{AtomicUsize, Ordering};
use std::sync::Mutex;
use std::time::Duration;

struct ProxyEngine {
    p: proxy::Proxy,
}

impl Engine for ProxyEngine {
    fn reset(&mut self) {
        self.p.reset();
    }
    fn exec(&mut self, op: &str, o: &mut Oracle) -> String {
        if op.starts_with("e2e derive") || op.starts_with("e2e stream") || op.starts_with("e2e cycle") {
            return "bad-op".into(); // internal operations are not part of the protocol
        }
        let (obs, fails) = self.p.exec(op);
        for (c, d) in fails {
            o.fail(&c, &d);
        }
        if op == "e2e probe" || op.starts_with("e2e jprobe ") {
            return "done".into();
        }
        obs
    }
}

fn worker() {
    harness_core::install_panic_hook();
    let mut core = core::Core::new();
    let stdin = std::io::stdin();
    let stdout = std::io::stdout();
    for line in stdin.lock().lines() {
        let line = match line {
            Ok(l) => l,
            Err(_) => break,
        };
        let mut o = Oracle::default();
        let obs = if line.starts_with("case ") {
            core.sess = None;
            "ok".to_string()
        } else {
            core.exec(&line, &mut o)
        };
        let mut out = obs.replace(['\n', '\x1f', '\x1e'], " ");
        for (c, d) in o.fails {
            out.push('\x1f');
            out.push_str(&c.replace(['\n', '\x1f', '\x1e'], " "));
            out.push('\x1e');
            out.push_str(&d.replace(['\n', '\x1f', '\x1e'], " "));
        }
        let mut h = stdout.lock();
        // the marker separates answers from anything the library prints on stdout
        // (ObjectWriterFS::complete has a println!)
        if writeln!(h, "\x01R{}", out).is_err() || h.flush().is_err() {
            break;
        }
    }
}

#[derive(Default)]
struct CaseOut {
    lines: Vec<(String, String)>,
    /// (index of the line it belongs to, class, description)
    fails: Vec<(String, String)>,
    nontrivial: Vec<String>,
    counts: Vec<String>,
    sample: Option<String>,
}

fn exec_case(p: &mut proxy::Proxy, spec: &CaseSpec) -> CaseOut {
    let mut out = CaseOut::default();
    p.reset();
    let (d, _) = p.exec(&format!("e2e derive {}", spec.sp.fmt(false)));
    if d.starts_with("ERR") || d == "bad-op" || d == "TIMEOUT" {
        if std::env::var("E2E_DEBUG").is_ok() {
            eprintln!("SKIP {} :: {}", d, spec.sp.fmt(false));
        }
        out.counts.push(format!("{}:skipped-{}", spec.sp.prop, d.split(' ').take(2).collect::<Vec<_>>().join("-")));
        return out;
    }
    let sp = match params::SessP::parse(&d) {
        Some(s) => s,
        None => {
            out.counts.push("skipped-unparsable-derive".into());
            return out;
        }
    };
    let op = format!("e2e session {}", d);
    let (obs, fails) = p.exec(&op);
    out.sample = Some(format!("{} -> {}", if op.len() > 400 { &op[..400] } else { &op }, obs));
    out.lines.push((op, obs.clone()));
    out.fails.extend(fails);
    let prop = spec.sp.prop.clone();
    out.counts.push(format!("{}:sessions", prop));
    for o in &sp.objs {
        let oti = o.oti.unwrap_or(sp.oti);
        out.counts.push(format!("{}:scheme-{}", prop, oti.sch.name()));
        out.counts.push(format!("{}:cenc-{}", prop, o.cenc));
        out.counts.push(format!("{}:src-{}", prop, o.src));
        out.counts.push(format!("{}:{}", prop, if oti.ifti { "inband-fti" } else { "fdt-only-oti" }));
        out.counts.push(format!("{}:transfers-{}", prop, o.m));
        if o.toi.is_none() {
            out.counts.push(format!("{}:refused-objects", prop));
        }
    }
    out.counts.push(format!("{}:objects-{}", prop, sp.objs.len()));
    out.counts.push(format!("{}:interleave-{}", prop, sp.w));
    out.counts.push(format!("{}:{}", prop, if sp.full { "FullFDT" } else { "ObjectsBeingTransferred" }));
    out.counts.push(format!("{}:receive-once-{}", prop, sp.ro as u8));
    if !obs.starts_with("ok ") {
        out.counts.push(format!("{}:session-{}", prop, obs.split(' ').next().unwrap_or("?")));
        return out;
    }
    let (st, _) = p.exec("e2e stream");
    let st = parse_stream(&st);
    let mut runs: Vec<String> = Vec::new();
    for pl in &spec.plans {
        if let Plan::JoinFault = pl {
            let (c, _) = p.exec("e2e cycle 1");
            if let Ok(c) = c.trim().parse::<usize>() {
                for off in 0..=c {
                    runs.push(format!("fprobe {}", off));
                }
            }
        } else if let Plan::JoinAt(offs) = pl {
            for off in offs {
                runs.push(format!("join {}", off));
            }
        } else if let Plan::JoinAll | Plan::JoinCycles(_) = pl {
            let ncyc = if let Plan::JoinCycles(k) = pl { *k } else { 1 };
            let (c, _) = p.exec(&format!("e2e cycle {}", ncyc));
            if let Ok(c) = c.trim().parse::<usize>() {
                // Raptor / RaptorQ with repair symbols: what the decoder makes of a partially received
                // block + repair symbols is library behaviour (the contract only says "the k source
                // symbols suffice"): oracle-only runs
                let lib = |o: params::OtiP| matches!(o.sch, params::Scheme::Raptor | params::Scheme::RaptorQ) && o.p > 0;
                let jp = lib(sp.oti) || sp.objs.iter().any(|o| lib(o.oti.unwrap_or(sp.oti)));
                for off in 0..=c {
                    runs.push(format!("{} {}", if jp { "jprobe" } else { "join" }, off));
                }
            } else {
                out.counts.push(format!("{}:no-full-cycle", prop));
            }
        } else {
            runs.extend(expand(pl, &sp, &st));
        }
    }
    // D18 (stream source + cenc): what the receiver makes of the uncompressed bytes is flate2's business
    let d18 = sp.objs.iter().any(|o| o.toi.is_some() && o.cenc != "null" && matches!(o.src.as_str(), "stream" | "sparse" | "file"));
    for r in runs {
        let r = if r == "full" && d18 { "probe".to_string() } else { r };
        // objects of tens of megabytes (the default-configuration replays of findings e2e-1): the session model's
        // symbol lists are quadratic there - the stream digest is compared, the receptions are judged by the oracle
        let huge = sp.objs.iter().any(|o| o.sz > 2_000_000 && o.src != "sparse");
        let r = if huge && r.starts_with("mask ") { r.replacen("mask", "mprobe", 1) } else { r };
        // blocks of thousands of symbols (the K-maximum controls): same reason
        let bigk = sp.objs.iter().any(|o| o.oti.map(|x| x.b > 2000).unwrap_or(false) && o.sz > 8000);
        let r = if bigk && r == "full" { "probe".to_string() } else { r };
        let mut op = format!("e2e {}", r);
        let (mut obs, fails) = p.exec(&op);
        if obs == "TIMEOUT" && (r.starts_with("jprobe") || r.starts_with("fprobe") || r.starts_with("mprobe")) {
            obs = "done".to_string();
        }
        // a time-out cannot be predicted by the model: the run becomes an oracle-only probe (the oracle failure
        // `...:hang` stays and decides), so that the line comparison is not what reports it
        if obs == "TIMEOUT" && r.starts_with("mask ") {
            op = format!("e2e {}", r.replacen("mask", "mprobe", 1));
            obs = "done".to_string();
            out.counts.push(format!("{}:timeouts", prop));
        }
        if obs == "TIMEOUT" && r.starts_with("join ") {
            op = format!("e2e {}", r.replacen("join", "jprobe", 1));
            obs = "done".to_string();
            out.counts.push(format!("{}:timeouts", prop));
        }
        if obs == "TIMEOUT" && (r == "full" || r == "probe") {
            // a hang cannot be predicted by the model (D15 depends on flate2's buffering): the run is
            // recorded as an oracle-only probe; the oracle failure (class ...hang) stays
            op = "e2e probe".to_string();
            obs = "done".to_string();
            out.counts.push(format!("{}:timeouts", prop));
        }
        // non-trivial: a run in which something was lost / duplicated / joined late, or a clean
        // multi-block / multi-object / coded session
        let nt = match prop.as_str() {
            "C01" => sp.objs.iter().any(|o| o.tl.unwrap_or(0) > 0),
            "C02" => r.contains('0') || r.starts_with("dup"),
            _ => !r.ends_with(" 0"),
        };
        if nt {
            out.nontrivial.push(format!("{}|{}", spec.sp.fmt(false), r));
        }
        out.counts.push(format!("{}:runs-{}", prop, r.split(' ').next().unwrap_or("?")));
        if obs == "TIMEOUT" {
            out.counts.push(format!("{}:timeouts", prop));
        }
        let stop = obs == "TIMEOUT";
        out.lines.push((op, obs));
        out.fails.extend(fails);
        if stop && prop == "C01" {
            break;
        }
    }
    out
}

fn run(ctx: &mut Ctx, _eng: &mut dyn Engine) {
    let thorough = ctx.tier_thorough;
    let only = std::env::var("E2E_ONLY").unwrap_or_default();
    let mut cases: Vec<CaseSpec> = Vec::new();
    if only.is_empty() || only.contains("C02") {
        cases.extend(gen_c02(ctx.seed, thorough));
    }
    if only.is_empty() || only.contains("C16") {
        cases.extend(gen_c16(ctx.seed, thorough));
    }
    if only.is_empty() || only.contains("C01") {
        cases.extend(gen_c01(ctx.seed, thorough));
    }
    for c in cases.iter_mut() {
        sanitize(&mut c.sp);
    }
    ctx.rule = "real Sender -> datagrams -> mask / multiplicities / join offset -> real Receiver with a recording writer, in a watchdogged child process; \
        C01: clean-channel sessions over the size grid x 5 schemes x E x B x parity x cenc x in-band/FDT-only x publish mode x interleave x multiplex x 1-4 objects x transfers x receive-once x sources x writers (random covering + deterministic size sweep + scheme maxima); \
        C02: exhaustive loss subsets of small RS sessions, every subset of one block for k+p<=8 (codec contract), sampled masks / duplications on ~100-packet sessions, FDT at its threshold, FDT copies before/after the object; \
        C16: every join offset within one full cycle x 5 schemes x in-band/FDT-only x 1-3 objects x 2 carousel modes x 2 publish modes. \
        Compared with the Lean session model: stream digest (every packet's TOI, FDT id, SBN, ESI, B), refused objects, and per run the number of FDT instances completed and per object opens/completes/errors/interrupts. \
        non-trivial = distinct (session, run) with a loss / duplication / late join, or a clean session with a non-empty object"
        .to_string();
    let nworkers: usize = std::env::var("E2E_WORKERS").ok().and_then(|x| x.parse().ok()).unwrap_or(12);
    let next = AtomicUsize::new(0);
    let results: Mutex<Vec<Option<CaseOut>>> = Mutex::new((0..cases.len()).map(|_| None).collect());
    // wall-clock watchdog of one worker operation: 20 checks with 12 workers each may share the machine, so the margin is
    // two orders of magnitude above what an operation takes (a call that really never returns is still found, later)
    let base = Duration::from_secs(if thorough { 80 } else { 40 });
    std::thread::scope(|sc| {
        for _ in 0..nworkers {
            sc.spawn(|| {
                let mut p = proxy::Proxy::new(base);
                loop {
                    let i = next.fetch_add(1, Ordering::SeqCst);
                    if i >= cases.len() {
                        break;
                    }
                    let r = exec_case(&mut p, &cases[i]);
                    results.lock().unwrap()[i] = Some(r);
                }
            });
        }
    });
    let results = results.into_inner().unwrap();
    for (spec, r) in cases.iter().zip(results.into_iter()) {
        let r = r.unwrap_or_default();
        for c in &r.counts {
            ctx.count(c);
        }
        if r.lines.is_empty() {
            continue;
        }
        ctx.case(&spec.id);
        for (op, obs) in &r.lines {
            ctx.op(op, obs);
            ctx.evaluations += 1;
        }
        for (c, d) in &r.fails {
            ctx.oracle_fail(c, d);
        }
        for k in &r.nontrivial {
            ctx.nontrivial(k);
        }
        if let Some(s) = r.sample {
            if spec.id.ends_with("-1") || spec.id.ends_with("-7") {
                ctx.sample(s);
            }
        }
    }
    // clean up stray work directories of killed children
    if let Ok(rd) = std::fs::read_dir("/verif/work") {
        for e in rd.flatten() {
            let n = e.file_name().to_string_lossy().to_string();
            let me = std::process::id();
            if n.starts_with(&format!("e2e-fs-{}-", me)) || n.starts_with(&format!("e2e-src-{}-", me)) {
                std::fs::remove_dir_all(e.path()).ok();
            }
        }
    }
}

fn main() {
    let args: Vec<String> = std::env::args().collect();
    if args.len() >= 2 && args[1] == "worker" {
        worker();
        return;
    }
    harness_core::engine_main(
        "e2e",
        || Box::new(ProxyEngine { p: proxy::Proxy::new(Duration::from_secs(80)) }),
        run,
    );
}
