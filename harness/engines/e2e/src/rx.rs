//! Receiver side: REAL `flute::receiver::Receiver` / `MultiReceiver` fed with a selection of the
//! sender's datagrams, with a recording `ObjectWriterBuilder`.
use crate::sess::*;
use flute::core::UDPEndpoint;
use flute::receiver::writer::{ObjectMetadata, ObjectWriter, ObjectWriterBuilder, ObjectWriterBuilderResult};
use flute::receiver::{self, MultiReceiver, Receiver};
use std::cell::{Cell, RefCell};
use std::panic::AssertUnwindSafe;
use std::rc::Rc;
use std::time::SystemTime;

#[derive(Debug)]
pub struct Rec {
    pub toi: u128,
    pub meta: ObjectMetadata,
    pub data: RefCell<Vec<u8>>,
    /// o = open, w = write, c = complete, e = error, i = interrupted
    pub calls: RefCell<Vec<char>>,
    /// index (in the fed sequence) of the packet being pushed when the terminal call happened
    pub done_at: Cell<Option<usize>>,
}

pub struct RecBuilder {
    pub recs: RefCell<Vec<Rc<Rec>>>,
    pub fdt_count: Cell<u32>,
    pub md5: bool,
    pub cur: Rc<Cell<usize>>,
    /// storage fault injection: the FIRST `open()` of every TOI fails (storage temporarily unavailable)
    pub fail_first_open: bool,
    pub failed: Rc<RefCell<std::collections::BTreeSet<u128>>>,
}

#[derive(Debug)]
struct RecWriter {
    rec: Rc<Rec>,
    md5: bool,
    cur: Rc<Cell<usize>>,
    fail_first_open: bool,
    failed: Rc<RefCell<std::collections::BTreeSet<u128>>>,
}

impl ObjectWriterBuilder for RecBuilder {
    fn new_object_writer(&self, _e: &UDPEndpoint, _tsi: &u64, toi: &u128, meta: &ObjectMetadata, _now: SystemTime) -> ObjectWriterBuilderResult {
        let rec = Rc::new(Rec {
            toi: *toi,
            meta: meta.clone(),
            data: RefCell::new(Vec::new()),
            calls: RefCell::new(Vec::new()),
            done_at: Cell::new(None),
        });
        self.recs.borrow_mut().push(rec.clone());
        ObjectWriterBuilderResult::StoreObject(Box::new(RecWriter { rec, md5: self.md5, cur: self.cur.clone(), fail_first_open: self.fail_first_open, failed: self.failed.clone() }))
    }
    fn update_cache_control(&self, _e: &UDPEndpoint, _tsi: &u64, _toi: &u128, _meta: &ObjectMetadata, _now: SystemTime) {}
    fn fdt_received(
        &self,
        _e: &UDPEndpoint,
        _tsi: &u64,
        _xml: &str,
        _expires: SystemTime,
        _meta: &ObjectMetadata,
        _d: std::time::Duration,
        _now: SystemTime,
        _ext: Option<SystemTime>,
    ) {
        self.fdt_count.set(self.fdt_count.get() + 1);
    }
}

impl ObjectWriter for RecWriter {
    fn open(&self, _now: SystemTime) -> flute::error::Result<()> {
        if self.fail_first_open && self.failed.borrow_mut().insert(self.rec.toi) {
            // 'O' = an open() that answered Err
            self.rec.calls.borrow_mut().push('O');
            return Err(flute::error::FluteError::new("storage temporarily unavailable (injected)"));
        }
        self.rec.calls.borrow_mut().push('o');
        Ok(())
    }
    fn write(&self, _sbn: u32, data: &[u8], _now: SystemTime) -> flute::error::Result<()> {
        let mut c = self.rec.calls.borrow_mut();
        if c.last() != Some(&'w') {
            c.push('w');
        }
        self.rec.data.borrow_mut().extend_from_slice(data);
        Ok(())
    }
    fn complete(&self, _now: SystemTime) {
        self.rec.calls.borrow_mut().push('c');
        self.rec.done_at.set(Some(self.cur.get()));
    }
    fn error(&self, _now: SystemTime) {
        self.rec.calls.borrow_mut().push('e');
        self.rec.done_at.set(Some(self.cur.get()));
    }
    fn interrupted(&self, _now: SystemTime) {
        self.rec.calls.borrow_mut().push('i');
        self.rec.done_at.set(Some(self.cur.get()));
    }
    fn enable_md5_check(&self) -> bool {
        self.md5
    }
}

pub struct RxResult {
    pub recs: Vec<Rc<Rec>>,
    pub fdt_count: u32,
    pub panic: Option<String>,
    pub push_err: u32,
}

pub fn rx_config(sess: &Session) -> receiver::Config {
    receiver::Config {
        max_objects_error: 0,
        session_timeout: None,
        object_timeout: None,
        object_max_cache_size: if sess.sp.maxc == 0 { None } else { Some(sess.sp.maxc as usize) },
        object_receive_once: sess.sp.ro,
        enable_fdt_expiration_check: true,
    }
}

/// feed `sel` (indices into the stream, in feeding order) into a fresh receiver
pub fn run_rx(sess: &Session, sel: &[usize], fail_first_open: bool) -> RxResult {
    let cur = Rc::new(Cell::new(0usize));
    let builder = Rc::new(RecBuilder {
        recs: RefCell::new(Vec::new()),
        fdt_count: Cell::new(0),
        md5: sess.sp.wmd5,
        cur: cur.clone(),
        fail_first_open,
        failed: Rc::new(RefCell::new(Default::default())),
    });
    let cfg = rx_config(sess);
    let ep = endpoint();
    let mut push_err = 0u32;
    let mut panic = None;
    let b2: Rc<dyn ObjectWriterBuilder> = builder.clone();
    let r = harness_core::guarded(AssertUnwindSafe(|| {
        if sess.sp.rx == "multi" {
            let mut m = MultiReceiver::new(b2, Some(cfg), false);
            for (n, &i) in sel.iter().enumerate() {
                cur.set(n);
                let d = &sess.stream[i];
                if m.push(&ep, &d.data, d.t).is_err() {
                    push_err += 1;
                }
            }
            // snapshot happens through the Rc'd records; the receiver is dropped afterwards
            snapshot(&builder)
        } else {
            let mut r = Receiver::new(&ep, TSI, b2, Some(cfg));
            for (n, &i) in sel.iter().enumerate() {
                cur.set(n);
                let d = &sess.stream[i];
                if r.push_data(&d.data, d.t).is_err() {
                    push_err += 1;
                }
            }
            snapshot(&builder)
        }
    }));
    let snap = match r {
        Ok(s) => s,
        Err(loc) => {
            panic = Some(loc);
            snapshot(&builder)
        }
    };
    RxResult { recs: snap, fdt_count: builder.fdt_count.get(), panic, push_err }
}

/// deep copy of the records *before* the receiver is dropped (Drop reports `error` on open writers)
fn snapshot(b: &RecBuilder) -> Vec<Rc<Rec>> {
    b.recs
        .borrow()
        .iter()
        .map(|r| {
            Rc::new(Rec {
                toi: r.toi,
                meta: r.meta.clone(),
                data: RefCell::new(r.data.borrow().clone()),
                calls: RefCell::new(r.calls.borrow().clone()),
                done_at: Cell::new(r.done_at.get()),
            })
        })
        .collect()
}

pub fn count(r: &Rec, c: char) -> usize {
    r.calls.borrow().iter().filter(|x| **x == c).count()
}

/// canonical observation line: `fdt=<n> <toi>:o<opens>c<completes>e<errors>i<interrupted> ...`
pub fn observe(sess: &Session, rx: &RxResult) -> String {
    if rx.panic.is_some() {
        return "PANIC".to_string();
    }
    let mut s = format!("fdt={}", rx.fdt_count);
    for o in &sess.objs {
        if let Some(t) = o.toi {
            let (mut no, mut nc, mut ne, mut ni) = (0, 0, 0, 0);
            for r in rx.recs.iter().filter(|r| r.toi == t) {
                no += count(r, 'o');
                nc += count(r, 'c');
                ne += count(r, 'e');
                ni += count(r, 'i');
            }
            s += &format!(" {}:o{}c{}e{}i{}", t, no, nc, ne, ni);
        }
    }
    s
}

/// filesystem writer run (C01 last clause): returns for each accepted object the bytes of the file
/// named by its content location under a fresh destination directory (removed afterwards)
pub fn run_fs(sess: &Session, sel: &[usize]) -> Result<Vec<(u128, Option<Vec<u8>>)>, String> {
    let dir = work_dir("fs");
    let res = (|| {
        let w = receiver::writer::ObjectWriterFSBuilder::new(&dir, sess.sp.wmd5).map_err(|e| format!("{:?}", e))?;
        let b: Rc<dyn ObjectWriterBuilder> = Rc::new(w);
        let cfg = rx_config(sess);
        let ep = endpoint();
        let r = harness_core::guarded(AssertUnwindSafe(|| {
            let mut r = Receiver::new(&ep, TSI, b, Some(cfg));
            for &i in sel {
                let d = &sess.stream[i];
                r.push_data(&d.data, d.t).ok();
            }
        }));
        if let Err(loc) = r {
            return Err(format!("PANIC {}", loc));
        }
        let mut out = Vec::new();
        for o in &sess.objs {
            if let Some(t) = o.toi {
                let rel = location(o.p.loc.unwrap_or(o.idx)).strip_prefix("file:///").unwrap().to_string();
                out.push((t, std::fs::read(dir.join(rel)).ok()));
            }
        }
        Ok(out)
    })();
    std::fs::remove_dir_all(&dir).ok();
    res
}
