//! Session parameters: textual form (the `session` op line) <-> structures.
//!
//! `e2e session <global k=v ...> | o <k=v ...> | o ... | f <id>:<len>:<toi,toi> ... | s <RLE schedule>`
//!
//! The `o` sections additionally carry the *derived* facts `toi=` and `tl=` and the `f` / `s`
//! sections are derived as well (they are read off the real sender's output by `derive` and are
//! inputs of the Lean model, which cannot know XML / compressed lengths or the scheduler's
//! interleaving: the model predicts each source's own (SBN, ESI, B) sequence and the receiver).
use std::collections::BTreeMap;

#[derive(Clone, Copy, PartialEq, Eq, Debug)]
pub enum Scheme {
    NoCode,
    Rs,
    RsUs,
    RaptorQ,
    Raptor,
}

impl Scheme {
    pub fn parse(s: &str) -> Option<Scheme> {
        Some(match s {
            "nc" => Scheme::NoCode,
            "rs" => Scheme::Rs,
            "rsu" => Scheme::RsUs,
            "rq" => Scheme::RaptorQ,
            "rp" => Scheme::Raptor,
            _ => return None,
        })
    }
    pub fn name(&self) -> &'static str {
        match self {
            Scheme::NoCode => "nc",
            Scheme::Rs => "rs",
            Scheme::RsUs => "rsu",
            Scheme::RaptorQ => "rq",
            Scheme::Raptor => "rp",
        }
    }
    pub const ALL: [Scheme; 5] = [Scheme::NoCode, Scheme::Rs, Scheme::RsUs, Scheme::RaptorQ, Scheme::Raptor];
}

#[derive(Clone, Copy, PartialEq, Eq, Debug)]
pub struct OtiP {
    pub sch: Scheme,
    pub e: u32,
    pub b: u32,
    pub p: u32,
    pub ifti: bool,
}

impl OtiP {
    pub fn fmt(&self) -> String {
        format!("{}:{}:{}:{}:{}", self.sch.name(), self.e, self.b, self.p, self.ifti as u8)
    }
    pub fn parse(s: &str) -> Option<OtiP> {
        let t: Vec<&str> = s.split(':').collect();
        if t.len() != 5 {
            return None;
        }
        Some(OtiP {
            sch: Scheme::parse(t[0])?,
            e: t[1].parse().ok()?,
            b: t[2].parse().ok()?,
            p: t[3].parse().ok()?,
            ifti: match t[4] {
                "0" => false,
                "1" => true,
                _ => return None,
            },
        })
    }
}

#[derive(Clone, Copy, PartialEq, Eq, Debug)]
pub enum Car {
    None,
    Delay(u64),
    Interval(u64),
}
impl Car {
    pub fn fmt(&self) -> String {
        match self {
            Car::None => "-".into(),
            Car::Delay(d) => format!("d{}", d),
            Car::Interval(d) => format!("i{}", d),
        }
    }
    pub fn parse(s: &str) -> Option<Car> {
        if s == "-" {
            return Some(Car::None);
        }
        let (k, v) = s.split_at(1);
        let v: u64 = v.parse().ok()?;
        match k {
            "d" => Some(Car::Delay(v)),
            "i" => Some(Car::Interval(v)),
            _ => None,
        }
    }
}

#[derive(Clone, PartialEq, Eq, Debug)]
pub struct ObjP {
    pub sz: u64,
    pub seed: u64,
    /// content kind: r = pseudo random, p = periodic (compressible)
    pub ck: char,
    pub q: u32,
    pub m: u32,
    pub car: Car,
    pub cenc: String,
    pub icenc: bool,
    /// object-level OTI override
    pub oti: Option<OtiP>,
    /// buf | stream | file | filecached | sparse
    pub src: String,
    /// - | nocache | maxstale | exp<secs>
    pub cc: String,
    pub grp: bool,
    pub etag: bool,
    pub md5: bool,
    /// Content-Location of this object = the location of object `loc` (an earlier version of the same file);
    /// None = its own
    pub loc: Option<usize>,
    // derived
    pub toi: Option<u128>,
    pub tl: Option<u64>,
    /// datagram length of the object's packets / of the packet carrying its last source symbol
    pub pl: u64,
    pub pll: u64,
}

impl Default for ObjP {
    fn default() -> Self {
        ObjP {
            sz: 0,
            seed: 1,
            ck: 'r',
            q: 0,
            m: 1,
            car: Car::None,
            cenc: "null".into(),
            icenc: false,
            oti: None,
            src: "buf".into(),
            cc: "-".into(),
            grp: false,
            etag: false,
            md5: true,
            toi: None,
            loc: None,
            tl: None,
            pl: 0,
            pll: 0,
        }
    }
}

#[derive(Clone, PartialEq, Eq, Debug)]
pub struct FdtInst {
    pub id: u32,
    pub len: u64,
    pub tois: Vec<u128>,
}

#[derive(Clone, PartialEq, Eq, Debug)]
pub struct SessP {
    pub prop: String,
    pub oti: OtiP,
    pub w: u32,
    pub full: bool,
    pub ro: bool,
    pub fcenc: String,
    pub mux: Vec<u32>,
    pub dt: u64,
    pub idle: u64,
    pub n: u64,
    pub tail: u64,
    pub fcar: Car,
    pub maxc: u64,
    pub wr: String,
    pub wmd5: bool,
    pub rx: String,
    pub sgrp: bool,
    /// first TOI handed out by the sender (TOIs are up to 112 bits wide)
    pub toi0: u128,
    /// fdt_start_id of the sender (FDT Instance IDs are 20 bits wide and wrap)
    pub fid0: u32,
    pub objs: Vec<ObjP>,
    // derived
    pub fdts: Vec<FdtInst>,
    /// schedule: sequence of (source, run length); source = 0 for FDT instance `id` encoded as
    /// ("F", id) or ("O", toi)
    pub sched: Vec<(char, u128, u64)>,
}

impl Default for SessP {
    fn default() -> Self {
        SessP {
            prop: "C01".into(),
            oti: OtiP { sch: Scheme::NoCode, e: 4, b: 3, p: 0, ifti: true },
            w: 1,
            full: true,
            ro: true,
            fcenc: "null".into(),
            mux: vec![1],
            dt: 0,
            idle: 100_000,
            n: 0,
            tail: 0,
            fcar: Car::Delay(1_000_000),
            maxc: 0,
            wr: "buf".into(),
            wmd5: true,
            rx: "recv".into(),
            sgrp: false,
            toi0: 1,
            fid0: 1,
            objs: vec![],
            fdts: vec![],
            sched: vec![],
        }
    }
}

fn b(x: bool) -> u8 {
    x as u8
}

impl SessP {
    pub fn fmt(&self, with_derived: bool) -> String {
        let mut s = format!(
            "prop={} oti={} w={} mode={} ro={} fcenc={} mux={} dt={} idle={} n={} tail={} fcar={} maxc={} wr={} wmd5={} rx={} sgrp={} toi0={} fid0={}",
            self.prop,
            self.oti.fmt(),
            self.w,
            if self.full { "full" } else { "obt" },
            b(self.ro),
            self.fcenc,
            self.mux.iter().map(|x| x.to_string()).collect::<Vec<_>>().join(","),
            self.dt,
            self.idle,
            self.n,
            self.tail,
            self.fcar.fmt(),
            self.maxc,
            self.wr,
            b(self.wmd5),
            self.rx,
            b(self.sgrp),
            self.toi0,
            self.fid0
        );
        for o in &self.objs {
            s += &format!(
                " | o sz={} seed={} ck={} q={} m={} car={} cenc={} icenc={} oti={} src={} cc={} grp={} etag={} md5={} loc={}",
                o.sz,
                o.seed,
                o.ck,
                o.q,
                o.m,
                o.car.fmt(),
                o.cenc,
                b(o.icenc),
                o.oti.map(|x| x.fmt()).unwrap_or("-".into()),
                o.src,
                o.cc,
                b(o.grp),
                b(o.etag),
                b(o.md5),
                o.loc.map(|x| x.to_string()).unwrap_or("-".into())
            );
            if with_derived {
                s += &format!(
                    " toi={} tl={} pl={} pll={}",
                    o.toi.map(|x| x.to_string()).unwrap_or("-".into()),
                    o.tl.map(|x| x.to_string()).unwrap_or("-".into()),
                    o.pl,
                    o.pll
                );
            }
        }
        if with_derived {
            s += " | f";
            for f in &self.fdts {
                s += &format!(
                    " {}:{}:{}",
                    f.id,
                    f.len,
                    if f.tois.is_empty() { "-".to_string() } else { f.tois.iter().map(|x| x.to_string()).collect::<Vec<_>>().join(",") }
                );
            }
            s += " | s";
            for (k, id, n) in &self.sched {
                s += &format!(" {}{}x{}", k, id, n);
            }
        }
        s
    }

    pub fn parse(line: &str) -> Option<SessP> {
        let mut sp = SessP::default();
        let mut secs = line.split(" | ");
        let g = kv(secs.next()?)?;
        sp.prop = g.get("prop")?.to_string();
        sp.oti = OtiP::parse(g.get("oti")?)?;
        sp.w = g.get("w")?.parse().ok()?;
        sp.full = match *g.get("mode")? {
            "full" => true,
            "obt" => false,
            _ => return None,
        };
        sp.ro = pb(g.get("ro")?)?;
        sp.fcenc = g.get("fcenc")?.to_string();
        sp.mux = g.get("mux")?.split(',').map(|x| x.parse().ok()).collect::<Option<Vec<u32>>>()?;
        sp.dt = g.get("dt")?.parse().ok()?;
        sp.idle = g.get("idle")?.parse().ok()?;
        sp.n = g.get("n")?.parse().ok()?;
        sp.tail = g.get("tail")?.parse().ok()?;
        sp.fcar = Car::parse(g.get("fcar")?)?;
        sp.maxc = g.get("maxc")?.parse().ok()?;
        sp.wr = g.get("wr")?.to_string();
        sp.wmd5 = pb(g.get("wmd5")?)?;
        sp.rx = g.get("rx")?.to_string();
        sp.sgrp = pb(g.get("sgrp")?)?;
        if let Some(t) = g.get("toi0") {
            sp.toi0 = t.parse().ok()?;
        }
        if let Some(t) = g.get("fid0") {
            sp.fid0 = t.parse().ok()?;
        }
        for sec in secs {
            let sec = sec.trim();
            if let Some(r) = sec.strip_prefix("o ") {
                let m = kv(r)?;
                let mut o = ObjP::default();
                o.sz = m.get("sz")?.parse().ok()?;
                o.seed = m.get("seed")?.parse().ok()?;
                o.ck = m.get("ck")?.chars().next()?;
                o.q = m.get("q")?.parse().ok()?;
                o.m = m.get("m")?.parse().ok()?;
                o.car = Car::parse(m.get("car")?)?;
                o.cenc = m.get("cenc")?.to_string();
                o.icenc = pb(m.get("icenc")?)?;
                o.oti = match *m.get("oti")? {
                    "-" => None,
                    x => Some(OtiP::parse(x)?),
                };
                o.src = m.get("src")?.to_string();
                o.cc = m.get("cc")?.to_string();
                o.grp = pb(m.get("grp")?)?;
                o.etag = pb(m.get("etag")?)?;
                o.md5 = pb(m.get("md5")?)?;
                o.loc = match m.get("loc") {
                    None | Some(&"-") => None,
                    Some(x) => Some(x.parse().ok()?),
                };
                o.toi = match m.get("toi") {
                    None | Some(&"-") => None,
                    Some(x) => Some(x.parse().ok()?),
                };
                o.tl = match m.get("tl") {
                    None | Some(&"-") => None,
                    Some(x) => Some(x.parse().ok()?),
                };
                if let Some(x) = m.get("pl") {
                    o.pl = x.parse().ok()?;
                }
                if let Some(x) = m.get("pll") {
                    o.pll = x.parse().ok()?;
                }
                sp.objs.push(o);
            } else if sec == "f" || sec.starts_with("f ") {
                for t in sec.split(' ').skip(1) {
                    let p: Vec<&str> = t.split(':').collect();
                    if p.len() != 3 {
                        return None;
                    }
                    let tois = if p[2] == "-" {
                        vec![]
                    } else {
                        p[2].split(',').map(|x| x.parse().ok()).collect::<Option<Vec<u128>>>()?
                    };
                    sp.fdts.push(FdtInst { id: p[0].parse().ok()?, len: p[1].parse().ok()?, tois });
                }
            } else if sec == "s" || sec.starts_with("s ") {
                for t in sec.split(' ').skip(1) {
                    let k = t.chars().next()?;
                    let (id, n) = t[1..].split_once('x')?;
                    sp.sched.push((k, id.parse().ok()?, n.parse().ok()?));
                }
            } else {
                return None;
            }
        }
        Some(sp)
    }
}

fn pb(s: &str) -> Option<bool> {
    match s {
        "0" => Some(false),
        "1" => Some(true),
        _ => None,
    }
}

fn kv(s: &str) -> Option<BTreeMap<&str, &str>> {
    let mut m = BTreeMap::new();
    for t in s.split(' ') {
        if t.is_empty() {
            continue;
        }
        let (k, v) = t.split_once('=')?;
        m.insert(k, v);
    }
    Some(m)
}
