//! Seeded case generators for C01 (clean channel), C02 (loss / duplication) and C16 (late join).
use crate::params::*;
use harness_core::Rng;

#[derive(Clone, Debug)]
pub enum Plan {
    Full,
    /// every subset of the packets (`objects_only`: FDT packets always kept)
    Exhaustive { objects_only: bool },
    Sampled { count: usize, seed: u64 },
    Dups { count: usize, seed: u64 },
    /// drop FDT packets around the decodability threshold, object packets kept
    FdtThreshold { seed: u64 },
    /// keep only the LAST copy of the FDT (after the object's close-object packet) / only the first
    FdtPlacement,
    /// ObjectsBeingTransferred: the object is announced by an OLDER FDT instance only - its first transfer is lost,
    /// newer instances that do not list it arrive, every later instance listing it is lost, its next transfer arrives
    OlderFdt,
    /// transfer 1 loses every packet of block 0 (and, second mask, of block 3); the other transfers are complete
    HoleFirstTransfer,
    JoinAll,
    /// every join offset within the first `n` consecutive full cycles
    JoinCycles(u32),
    /// the given join offsets
    JoinAt(Vec<usize>),
    /// every join offset of the first cycle with a one-shot storage fault: the first open() of every object fails
    /// (oracle only: still delivered within two further full cycles)
    JoinFault,
}

#[derive(Clone, Debug)]
pub struct CaseSpec {
    pub id: String,
    pub sp: SessP,
    pub plans: Vec<Plan>,
}

#[derive(Clone, Copy, Debug)]
pub struct PktInfo {
    pub toi: u128,
    pub fdt: u32,
    pub sbn: u32,
    pub esi: u32,
    pub close: bool,
    /// transfer index of this packet within its source (counted by (0,0) packets)
    pub tr: u32,
}

pub fn parse_stream(s: &str) -> Vec<PktInfo> {
    let mut out: Vec<PktInfo> = Vec::new();
    let mut trs: std::collections::BTreeMap<(u128, u32), u32> = Default::default();
    for t in s.split(' ') {
        let p: Vec<&str> = t.split(':').collect();
        if p.len() != 5 {
            continue;
        }
        let toi: u128 = p[0].parse().unwrap_or(0);
        let fdt: u32 = p[1].parse().unwrap_or(0);
        let sbn: u32 = p[2].parse().unwrap_or(0);
        let esi: u32 = p[3].parse().unwrap_or(0);
        let e = trs.entry((toi, fdt)).or_insert(0);
        if sbn == 0 && esi == 0 {
            *e += 1;
        }
        out.push(PktInfo { toi, fdt, sbn, esi, close: p[4] == "1", tr: *e });
    }
    out
}

fn rfc_ks(o: &OtiP, tl: u64) -> Vec<u64> {
    let (al, asm, nl, n) = crate::sess::rfc_partition(o.b as u128, tl as u128, o.e as u128);
    (0..n).map(|s| if s < nl { al as u64 } else { asm as u64 }).collect()
}

/// scheme + k-list of the source a packet belongs to
fn source_of(sp: &SessP, p: &PktInfo) -> Option<(OtiP, Vec<u64>)> {
    if p.toi == 0 {
        let f = sp.fdts.iter().find(|f| f.id == p.fdt)?;
        Some((sp.oti, rfc_ks(&sp.oti, f.len)))
    } else {
        let o = sp.objs.iter().find(|o| o.toi == Some(p.toi))?;
        let oti = o.oti.unwrap_or(sp.oti);
        Some((oti, rfc_ks(&oti, o.tl?)))
    }
}

/// Raptor / RaptorQ are modelled by contract ("the k source symbols suffice"): masks are made
/// *clean* for them - per (source, transfer, block) either every source symbol is kept, or every
/// repair symbol is dropped and at least one source symbol too (so fewer than k symbols remain).
fn clean(sp: &SessP, st: &[PktInfo], m: &mut [u8], rng: &mut Rng) {
    use std::collections::BTreeMap;
    let mut groups: BTreeMap<(u128, u32, u32, u32), Vec<usize>> = BTreeMap::new();
    for (i, p) in st.iter().enumerate() {
        groups.entry((p.toi, p.fdt, p.tr, p.sbn)).or_default().push(i);
    }
    for ((_, _, _, sbn), idxs) in groups {
        let (oti, ks) = match source_of(sp, &st[idxs[0]]) {
            Some(x) => x,
            None => continue,
        };
        if !matches!(oti.sch, Scheme::RaptorQ | Scheme::Raptor) {
            continue;
        }
        let k = match ks.get(sbn as usize) {
            Some(k) => *k as u32,
            None => continue,
        };
        let all_src = (0..k).all(|e| idxs.iter().any(|&i| st[i].esi == e && m[i] > 0));
        if all_src {
            continue;
        }
        if rng.chance(1, 2) {
            for &i in &idxs {
                if st[i].esi < k && m[i] == 0 {
                    m[i] = 1;
                }
            }
        } else {
            for &i in &idxs {
                if st[i].esi >= k {
                    m[i] = 0;
                }
            }
        }
    }
}

fn render(m: &[u8], dup: bool) -> String {
    let body: String = m.iter().map(|x| char::from(b'0' + *x)).collect();
    if dup {
        format!("dup {}", body)
    } else {
        format!("mask {}", body)
    }
}

/// expand a plan into run operations, given the derived session and its decoded stream
pub fn expand(plan: &Plan, sp: &SessP, st: &[PktInfo]) -> Vec<String> {
    let n = st.len();
    let mut out = Vec::new();
    match plan {
        Plan::Full => out.push("full".to_string()),
        Plan::Exhaustive { objects_only } => {
            let var: Vec<usize> = (0..n).filter(|&i| !*objects_only || st[i].toi != 0).collect();
            if var.len() > 14 {
                return out;
            }
            let mut rng = Rng::new(7);
            let mut seen = std::collections::BTreeSet::new();
            for bits in 0u32..(1u32 << var.len()) {
                let mut m = vec![1u8; n];
                for (j, &i) in var.iter().enumerate() {
                    m[i] = ((bits >> j) & 1) as u8;
                }
                clean(sp, st, &mut m, &mut rng);
                let r = render(&m, false);
                if seen.insert(r.clone()) {
                    out.push(r);
                }
            }
        }
        Plan::Sampled { count, seed } => {
            let mut rng = Rng::new(*seed);
            for c in 0..*count {
                let loss = [3u64, 10, 20, 35, 50][c % 5];
                let mut m: Vec<u8> = (0..n).map(|_| if rng.below(100) < loss { 0 } else { 1 }).collect();
                // bursts
                if c % 3 == 0 && n > 4 {
                    let a = rng.below(n as u64) as usize;
                    let l = 1 + rng.below(6) as usize;
                    for x in m.iter_mut().skip(a).take(l) {
                        *x = 0;
                    }
                }
                // protect the FDT in most samples so that the object part is exercised
                if c % 4 != 3 {
                    for i in 0..n {
                        if st[i].toi == 0 && st[i].tr <= 1 {
                            m[i] = 1;
                        }
                    }
                }
                clean(sp, st, &mut m, &mut rng);
                out.push(render(&m, false));
            }
        }
        Plan::Dups { count, seed } => {
            let mut rng = Rng::new(*seed);
            for c in 0..*count {
                let mut m: Vec<u8> = (0..n)
                    .map(|_| match rng.below(10) {
                        0 | 1 => 0,
                        2 | 3 => 2,
                        4 => 3,
                        _ => 1,
                    })
                    .collect();
                if c % 2 == 0 {
                    for i in 0..n {
                        if st[i].toi == 0 && m[i] == 0 {
                            m[i] = 1;
                        }
                    }
                }
                clean(sp, st, &mut m, &mut rng);
                out.push(render(&m, true));
            }
        }
        Plan::FdtThreshold { seed } => {
            let mut rng = Rng::new(*seed);
            let fidx: Vec<usize> = (0..n).filter(|&i| st[i].toi == 0).collect();
            let p = sp.oti.p as usize;
            for drop in [p.saturating_sub(1), p, p + 1, p + 2] {
                for _ in 0..6 {
                    if drop > fidx.len() {
                        continue;
                    }
                    let mut m = vec![1u8; n];
                    let mut pool = fidx.clone();
                    for _ in 0..drop {
                        let j = rng.below(pool.len() as u64) as usize;
                        m[pool.swap_remove(j)] = 0;
                    }
                    clean(sp, st, &mut m, &mut rng);
                    out.push(render(&m, false));
                }
            }
        }
        Plan::FdtPlacement => {
            // FDT transfers are numbered per instance; keep exactly one transfer of the FDT
            let max_tr = st.iter().filter(|p| p.toi == 0).map(|p| p.tr).max().unwrap_or(0);
            for keep in 1..=max_tr.min(12) {
                let m: Vec<u8> = st.iter().map(|p| if p.toi == 0 && p.tr != keep { 0 } else { 1 }).collect();
                out.push(render(&m, false));
            }
        }
        Plan::HoleFirstTransfer => {
            for hole in [0u32, 3] {
                let m: Vec<u8> = st.iter().map(|p| if p.toi != 0 && p.tr == 1 && p.sbn == hole { 0 } else { 1 }).collect();
                out.push(render(&m, false));
            }
        }
        Plan::OlderFdt => {
            for o in sp.objs.iter().filter(|o| o.m >= 2 && o.toi.is_some()) {
                let toi = o.toi.unwrap();
                // the first instance listing the object
                let first = match sp.fdts.iter().find(|f| f.tois.contains(&toi)) {
                    Some(f) => f.id,
                    None => continue,
                };
                let lists = |id: u32| sp.fdts.iter().any(|f| f.id == id && f.tois.contains(&toi));
                let first_pkt = st.iter().position(|p| p.toi == toi);
                let m: Vec<u8> = st
                    .iter()
                    .enumerate()
                    .map(|(i, p)| {
                        if p.toi == toi {
                            (p.tr >= 2) as u8
                        } else if p.toi == 0 {
                            // the first listing instance only before the object starts; instances not listing it always
                            if p.fdt == first {
                                (first_pkt.map(|f| i < f).unwrap_or(true)) as u8
                            } else {
                                (!lists(p.fdt)) as u8
                            }
                        } else {
                            1
                        }
                    })
                    .collect();
                out.push(render(&m, false));
            }
        }
        Plan::JoinAll | Plan::JoinCycles(_) | Plan::JoinAt(_) | Plan::JoinFault => {}
    }
    out
}

// ------------------------------------------------------------------------------------------------

fn pick_oti(rng: &mut Rng, sch: Scheme, small: bool) -> OtiP {
    let e = if small { *rng.pick(&[1u32, 2, 3, 4, 16]) } else { *rng.pick(&[1u32, 2, 3, 4, 16, 64, 1400]) };
    let b = *rng.pick(&[1u32, 2, 3, 5, 8, 64]);
    let p = match sch {
        Scheme::NoCode => 0,
        _ => *rng.pick(&[0u32, 1, 2, 5]),
    };
    OtiP { sch, e, b, p, ifti: rng.bool() }
}

/// first TOI of a session: TOIs are up to 112 bits wide; the values sit at the field-width boundaries
/// of the LCT header (16/32/48/64/80/112 bits) so that the objects of one session straddle them, the
/// last one makes the allocator wrap around to 1
pub const TOI0S: [u128; 9] = [
    0xFFFF,
    0xFFFF_FFFF,
    0xFFFF_FFFF_FFFF,
    0xFFFF_FFFF_FFFF_FFFE,
    0x1_0000_0000_0000_0000,
    0xFFFF_FFFF_FFFF_FFFF_FFFF,
    0x1234_5678_9ABC_DEF0_1234_5678,
    0xFFFF_FFFF_FFFF_FFFF_FFFF_FFFF_FFFE,
    0xFFFF_FFFF_FFFF_FFFF_FFFF_FFFF_FFFF,
];

/// object sizes around the symbol / block / partition boundaries
fn size_grid(o: &OtiP) -> Vec<u64> {
    let e = o.e as u64;
    let b = o.b as u64;
    let mut v = vec![
        0,
        1,
        e.saturating_sub(1),
        e,
        e + 1,
        (b * e).saturating_sub(1),
        b * e,
        b * e + 1,
        // a_large/a_small boundary: T = 2B+1 symbols -> 3 blocks, sizes differ
        (2 * b + 1) * e,
        (2 * b + 1) * e - e / 2,
        // 3 unequal blocks, short last symbol
        (2 * b) * e + 1,
        (3 * b) * e - 1,
        (3 * b + 2) * e + e / 2,
    ];
    v.sort();
    v.dedup();
    v
}

/// Raptor / RaptorQ are modelled by contract (the k source symbols suffice; what a decoder makes of
/// repair symbols alone is library behaviour).  A receiver that forgets a completed object (FDT
/// instances when receive-once is off, no-cache objects) starts a new reception from the trailing
/// repair symbols: such configurations get no repair symbols, so that model and library agree.
pub fn sanitize(sp: &mut SessP) {
    let rap = |s: Scheme| matches!(s, Scheme::Raptor | Scheme::RaptorQ);
    if rap(sp.oti.sch) && !sp.ro {
        sp.oti.p = 0;
    }
    let d = sp.oti;
    for o in sp.objs.iter_mut() {
        let oti = o.oti.unwrap_or(d);
        if rap(oti.sch) && o.cc == "nocache" {
            o.oti = Some(OtiP { p: 0, ..oti });
        }
    }
}

pub fn gen_c01(seed: u64, thorough: bool) -> Vec<CaseSpec> {
    let mut rng = Rng::new(seed ^ 0xC01);
    let mut cases = Vec::new();
    let mut n = 0usize;
    let mut push = |sp: SessP, cases: &mut Vec<CaseSpec>, plans: Vec<Plan>| {
        n += 1;
        cases.push(CaseSpec { id: format!("C01-{}", n), sp, plans });
    };
    // (1) deterministic sweep: size grid x scheme x a few (E,B,p) x in-band/FDT-only, one object
    let ebs: Vec<(u32, u32, u32)> = if thorough {
        vec![(1, 1, 1), (1, 3, 2), (2, 2, 1), (3, 5, 2), (4, 3, 2), (4, 8, 5), (16, 2, 1), (16, 5, 0), (64, 3, 2), (1400, 2, 1)]
    } else {
        vec![(1, 3, 2), (4, 3, 2), (3, 5, 1), (16, 2, 1), (64, 8, 2)]
    };
    for sch in Scheme::ALL {
        for &(e, b, p) in &ebs {
            let p = if sch == Scheme::NoCode { 0 } else { p };
            for ifti in [true, false] {
                let o = OtiP { sch, e, b, p, ifti };
                for sz in size_grid(&o) {
                    let mut sp = SessP::default();
                    sp.oti = OtiP { sch, e: if sch == Scheme::Raptor { 64 } else { 1024 }, b: 8, p: if sch == Scheme::NoCode { 0 } else { 1 }, ifti: true };
                    sp.w = 1 + (rng.below(4) as u32);
                    sp.full = rng.bool();
                    let mut ob = ObjP::default();
                    ob.sz = sz;
                    ob.seed = rng.below(1000);
                    ob.oti = Some(o);
                    ob.etag = rng.bool();
                    sp.objs.push(ob);
                    push(sp, &mut cases, vec![Plan::Full]);
                }
            }
        }
    }
    // (2) scheme maxima: maximum transfer length and one above
    for sch in Scheme::ALL {
        // (Raptor cannot encode blocks of 2 or 3 symbols: D23/D26)
        let (e, b) = if sch == Scheme::Raptor { (1u32, 4u32) } else { (2u32, 2u32) };
        let o = OtiP { sch, e, b, p: if sch == Scheme::NoCode { 0 } else { 1 }, ifti: true };
        let max = crate::sess::scheme_max_tl(&o) as u64;
        let runnable = max <= 3000 || (thorough && max <= 300_000) || (sch == Scheme::NoCode && max <= 300_000);
        for (sz, run) in [(max, runnable), (max + 1, false)] {
            if sch == Scheme::RsUs {
                continue;
            }
            let mut sp = SessP::default();
            sp.oti = OtiP { e: if sch == Scheme::Raptor { 64 } else { 1024 }, b: 8, ..o };
            sp.n = if run { 0 } else { 8 };
            let mut ob = ObjP::default();
            ob.sz = sz;
            ob.oti = Some(o);
            ob.src = if sz % 2 == 0 { "buf".into() } else { "stream".into() };
            sp.objs.push(ob);
            push(sp, &mut cases, if run { vec![Plan::Full] } else { vec![] });
        }
    }
    // (2b) the limit applies to the TRANSFER length (what the wire carries), not to the content length:
    // incompressible content just below the maximum grows past it when content-encoded and must be
    // refused; compressible content far above the maximum shrinks below it and must be delivered
    for sch in [Scheme::NoCode, Scheme::Rs, Scheme::RaptorQ, Scheme::Raptor] {
        let (e, b) = if sch == Scheme::Raptor { (1u32, 4u32) } else { (2u32, 2u32) };
        let o = OtiP { sch, e, b, p: if sch == Scheme::NoCode { 0 } else { 1 }, ifti: true };
        let max = crate::sess::scheme_max_tl(&o) as u64;
        let small = max <= 3000;
        for (ci, cenc) in ["zlib", "deflate", "gzip"].iter().enumerate() {
            let mut szs: Vec<(u64, char)> = vec![(max, 'r'), (max - 2, 'r'), (max - 6, 'r'), (max - 12, 'r'), (max - 40, 'r')];
            if sch != Scheme::Raptor {
                szs.push((max + 1, 'z'));
                szs.push((2 * max + 7, 'z'));
                szs.push((max + 1 + ci as u64, 'p'));
            }
            for (sz, ck) in szs {
                // incompressible objects near the maximum of the 16-bit-SBN schemes take 131 k packets
                // when accepted: they are run in the thorough tier only
                // (one of them: a 131 k-packet session costs the model driver about a minute)
                let run = sch != Scheme::Raptor && (small || ck != 'r' || (thorough && ci == 1 && sz == max - 40));
                let mut sp = SessP::default();
                sp.oti = OtiP { e: if sch == Scheme::Raptor { 64 } else { 1024 }, b: 8, ..o };
                sp.n = if run { 0 } else { 8 };
                let mut ob = ObjP::default();
                ob.sz = sz;
                ob.ck = ck;
                ob.seed = sz ^ 0x55;
                ob.cenc = cenc.to_string();
                ob.icenc = sz % 2 == 0;
                ob.oti = Some(o);
                ob.src = if ci == 1 { "filecached".into() } else { "buf".into() };
                sp.objs.push(ob);
                push(sp, &mut cases, if run { vec![Plan::Full] } else { vec![] });
            }
        }
    }
    // (2c) source blocks above the FEC library's K maximum (8192 Raptor, 56403 RaptorQ) are refused by
    // add_object (/repo 29615e2; before, the object was accepted and Sender::read panicked); a block of
    // exactly K_max symbols is accepted (and delivered: thorough tier, the encoders take a while)
    for (sch, kmax) in [(Scheme::Raptor, 8192u32), (Scheme::RaptorQ, 56403u32)] {
        for (b, nsym, run) in [(kmax, kmax as u64, thorough), (kmax + 1, kmax as u64 + 1, false), (kmax + 1, kmax as u64, thorough && sch == Scheme::Raptor), (65535, 2 * kmax as u64 + 1, false), (65535, 65535, false)] {
            let o = OtiP { sch, e: 4, b, p: 1, ifti: true };
            let mut sp = SessP::default();
            sp.oti = OtiP { sch, e: 64, b: 8, p: 1, ifti: true };
            sp.n = if run { 0 } else { 8 };
            let mut ob = ObjP::default();
            ob.sz = 4 * nsym - 1;
            ob.oti = Some(o);
            sp.objs.push(ob);
            push(sp, &mut cases, if run { vec![Plan::Full] } else { vec![] });
        }
    }
    // (2e) Reed-Solomon GF(2^8) limits (/repo d65a846): a block of a_large + parity = 255 symbols is accepted, 256
    // refused (FEC 5 and 129); FEC 5 refuses B + parity > 255 whatever the object (8-bit fields of its FEC OTI)
    for (sch, b, p, sz, run) in [
        (Scheme::RsUs, 255u32, 1u32, 254u64, true),
        (Scheme::RsUs, 255, 1, 255, false),
        (Scheme::RsUs, 300, 5, 250, true),
        (Scheme::RsUs, 300, 5, 251, false),
        (Scheme::Rs, 250, 5, 100, true),
        (Scheme::Rs, 251, 5, 100, false),
        (Scheme::Rs, 254, 1, 254, true),
        (Scheme::Rs, 255, 1, 10, false),
        (Scheme::Rs, 200, 55, 200, true),
        (Scheme::Rs, 200, 56, 3, false),
        (Scheme::RsUs, 65534, 1, 100, true),
        (Scheme::RsUs, 65535, 1, 100, false),
    ] {
        let mut sp = SessP::default();
        sp.oti = OtiP { sch: Scheme::Rs, e: 1024, b: 8, p: 1, ifti: true };
        sp.n = if run { 0 } else { 8 };
        let mut ob = ObjP::default();
        ob.sz = sz;
        ob.oti = Some(OtiP { sch, e: 1, b, p, ifti: sz % 2 == 0 });
        sp.objs.push(ob);
        push(sp, &mut cases, if run { vec![Plan::Full] } else { vec![] });
    }
    // (2d) degenerate configuration values the sender accepts: interleave_blocks = 0 (treated as 1 since
    // /repo 0805b7e) and max_transfer_count = 0 (one transfer, no close-object flag)
    for sch in Scheme::ALL {
        for (w, m) in [(0u32, 1u32), (1, 0), (0, 0), (2, 0)] {
            let mut sp = SessP::default();
            sp.oti = OtiP { sch, e: if sch == Scheme::Raptor { 64 } else { 1024 }, b: 8, p: if sch == Scheme::NoCode { 0 } else { 1 }, ifti: true };
            sp.w = w;
            sp.ro = m == 0 && w != 2;
            for j in 0..2u64 {
                let mut ob = ObjP::default();
                ob.oti = Some(OtiP { sch, e: 4, b: 4, p: if sch == Scheme::NoCode { 0 } else { 2 }, ifti: j == 0 });
                ob.sz = 4 * 4 * 3 - j;
                ob.seed = j;
                ob.m = if j == 0 { m } else { 1 };
                sp.objs.push(ob);
            }
            push(sp, &mut cases, vec![Plan::Full]);
        }
    }
    // RS under-specified reaches the 48-bit field cap: sparse source, only add_object is exercised
    // (E * B * (2^32 - 1) must exceed the cap for the cap to be the binding limit: B = 65; with B = 64 the
    // block maximum 2^48 - 65536 binds)
    for (bb, sz) in [
        (65u32, 0xFFFF_FFFF_FFFFu64),
        (65, 0x1_0000_0000_0000u64),
        (64, 0xFFFF_FFFF_0000u64),
        (64, 0xFFFF_FFFF_0001u64),
    ] {
        let o = OtiP { sch: Scheme::RsUs, e: 1024, b: bb, p: 1, ifti: true };
        let mut sp = SessP::default();
        sp.oti = o;
        sp.n = 6;
        let mut ob = ObjP::default();
        ob.sz = sz;
        ob.src = "sparse".into();
        ob.md5 = false;
        sp.objs.push(ob);
        push(sp, &mut cases, vec![]);
    }
    // RS under-specified (2,2): the block maximum E * B * (2^32 - 1) with a sparse source
    for sz in [2u64 * 2 * 0xFFFF_FFFF, 2 * 2 * 0xFFFF_FFFF + 1] {
        let o = OtiP { sch: Scheme::RsUs, e: 2, b: 2, p: 1, ifti: true };
        let mut sp = SessP::default();
        sp.oti = OtiP { e: 1024, b: 8, ..o };
        sp.n = 6;
        let mut ob = ObjP::default();
        ob.sz = sz;
        ob.oti = Some(o);
        ob.src = "sparse".into();
        ob.md5 = false;
        sp.objs.push(ob);
        push(sp, &mut cases, vec![]);
    }
    for (sz, _) in [(0xFFFF_FFFF_FFFFu64, true), (0x1_0000_0000_0000u64, false)] {
        let o = OtiP { sch: Scheme::RsUs, e: 1024, b: 64, p: 1, ifti: true };
        let mut sp = SessP::default();
        sp.oti = o;
        sp.n = 6;
        let mut ob = ObjP::default();
        ob.sz = sz;
        ob.src = "sparse".into();
        ob.md5 = false;
        sp.objs.push(ob);
        push(sp, &mut cases, vec![]);
    }
    // (3) random covering product
    let total = if thorough { 40000 } else { 1700 };
    for _ in 0..total {
        let mut sp = SessP::default();
        let sch = *rng.pick(&Scheme::ALL);
        sp.oti = pick_oti(&mut rng, sch, false);
        // keep the FDT within a few hundred packets
        if sp.oti.e < 16 {
            sp.oti.e = *rng.pick(&[16u32, 64, 256, 1024]);
        }
        // the FDT is coded with the default OTI: Reed-Solomon without parity cannot be published
        // (D21, refused since 318df3e), a Raptor block needs 4 source symbols (D23/D26)
        if matches!(sch, Scheme::Rs | Scheme::RsUs) && sp.oti.p == 0 {
            sp.oti.p = 1;
        }
        if sch == Scheme::Raptor {
            sp.oti.e = *rng.pick(&[16u32, 32, 64]);
            sp.oti.b = *rng.pick(&[8u32, 64]);
        }
        sp.w = if rng.chance(1, 16) { 0 } else { 1 + rng.below(4) as u32 };
        sp.full = rng.bool();
        sp.ro = rng.bool();
        sp.fcenc = rng.pick(&["null", "null", "zlib", "deflate", "gzip"]).to_string();
        let nq = 1 + rng.below(3) as usize;
        sp.mux = (0..nq).map(|_| rng.below(4) as u32).collect();
        sp.wr = if rng.chance(1, 6) { "fs".into() } else { "buf".into() };
        sp.wmd5 = rng.chance(3, 4);
        sp.rx = if rng.chance(1, 4) { "multi".into() } else { "recv".into() };
        sp.sgrp = rng.chance(1, 5);
        if rng.chance(1, 4) {
            sp.toi0 = *rng.pick(&TOI0S);
        }
        if rng.chance(1, 5) {
            sp.fid0 = *rng.pick(&[0xFFFFCu32, 0xFFFFE, 0xFFFFF, 0xFFFF0, 0]);
        }
        if rng.chance(1, 5) {
            sp.dt = 1000;
            sp.fcar = Car::Delay(*rng.pick(&[0u64, 2500, 10_000]));
        }
        let nobj = 1 + rng.below(4) as usize;
        for _ in 0..nobj {
            let mut ob = ObjP::default();
            let own = rng.chance(2, 3);
            let oti = if own {
                let s2 = if rng.chance(1, 3) { *rng.pick(&Scheme::ALL) } else { sch };
                let o = pick_oti(&mut rng, s2, true);
                ob.oti = Some(o);
                o
            } else {
                sp.oti
            };
            let grid = size_grid(&oti);
            ob.sz = if rng.chance(2, 3) { *rng.pick(&grid) } else { rng.below(40 * oti.e as u64 + 1) };
            if ob.sz > 200_000 {
                ob.sz = 200_000 - rng.below(1000);
            }
            ob.seed = rng.below(100_000);
            ob.ck = *rng.pick(&['r', 'p', 'p', 'z']);
            ob.q = rng.below(nq as u64) as u32;
            ob.m = *rng.pick(&[1u32, 1, 1, 1, 2, 2, 3, 3, 0]);
            ob.cenc = rng.pick(&["null", "null", "null", "zlib", "deflate", "gzip"]).to_string();
            ob.icenc = rng.bool();
            ob.src = rng.pick(&["buf", "buf", "stream", "file", "filecached"]).to_string();
            if ob.src == "file" && ob.cenc != "null" {
                // refused by create_from_file (documented), nothing to check
                ob.src = "filecached".into();
            }
            // Raptor cannot encode blocks of 2 or 3 symbols (finding D23/D26): keep most sessions clear of it
            if oti.sch == Scheme::Raptor && rng.chance(7, 8) {
                ob.cenc = "null".to_string();
                if rfc_ks(&oti, ob.sz).iter().any(|k| *k == 2 || *k == 3) {
                    ob.sz = if rng.bool() { oti.e as u64 } else { 4 * oti.b as u64 * oti.e as u64 + rng.below(oti.e as u64) };
                }
                if rfc_ks(&oti, ob.sz).iter().any(|k| *k == 2 || *k == 3) {
                    ob.sz = oti.e as u64;
                }
            }
            ob.cc = rng.pick(&["-", "-", "nocache", "maxstale", "exp600"]).to_string();
            ob.grp = rng.chance(1, 5);
            ob.etag = rng.bool();
            ob.md5 = rng.chance(3, 4);
            sp.objs.push(ob);
        }
        push(sp, &mut cases, vec![Plan::Full]);
    }
    // (5) filesystem writer, successive versions of ONE Content-Location (new TOI each): the file must hold exactly
    // the version completed last - shorter, longer, equal, empty, three versions; sequential transfers (multiplex 1)
    for sch in [Scheme::NoCode, Scheme::Rs] {
        for full in [true, false] {
            for sizes in [vec![5000u64, 1200], vec![1200, 5000], vec![2000, 2000], vec![37, 0], vec![900, 300, 100], vec![10, 4000, 11]] {
                let mut sp = SessP::default();
                sp.oti = OtiP { sch, e: 1024, b: 8, p: if sch == Scheme::NoCode { 0 } else { 1 }, ifti: true };
                sp.full = full;
                sp.wr = "fs".into();
                sp.mux = vec![1];
                for (j, sz) in sizes.iter().enumerate() {
                    let mut ob = ObjP::default();
                    ob.sz = *sz;
                    ob.seed = 100 + j as u64;
                    ob.ck = if j % 2 == 0 { 'r' } else { 'p' };
                    ob.oti = Some(OtiP { sch, e: 64, b: 8, p: if sch == Scheme::NoCode { 0 } else { 1 }, ifti: j % 2 == 0 });
                    ob.loc = Some(1);
                    sp.objs.push(ob);
                }
                push(sp, &mut cases, vec![Plan::Full]);
            }
        }
    }
    // (6) stream sources handed over at a non-zero position (the object is the whole stream; nothing but the start
    // of each transfer rewinds it when no MD5 is computed), one and several transfers, carousel
    for sch in Scheme::ALL {
        for (m, md5) in [(1u32, false), (2, false), (3, true), (2, true)] {
            let mut sp = SessP::default();
            sp.oti = OtiP { sch, e: if sch == Scheme::Raptor { 64 } else { 1024 }, b: 8, p: if sch == Scheme::NoCode { 0 } else { 1 }, ifti: true };
            sp.ro = m % 2 == 1;
            for j in 0..2u64 {
                let mut ob = ObjP::default();
                ob.oti = Some(OtiP { sch, e: 16, b: 4, p: if sch == Scheme::NoCode { 0 } else { 1 }, ifti: j == 0 });
                ob.sz = 16 * 4 * 3 + 5 * j;
                ob.seed = 7 + j;
                ob.m = m;
                ob.md5 = md5;
                ob.src = if j == 0 { "streamoff".into() } else { "stream".into() };
                sp.objs.push(ob);
            }
            push(sp, &mut cases, vec![Plan::Full]);
        }
    }
    // (4) receiver cache limit (F22): window x block bytes around object_max_cache_size
    for w in [1u32, 2, 3, 4] {
        for maxc in [64u64, 96, 128, 160, 256, 1024] {
            let mut sp = SessP::default();
            sp.oti = OtiP { sch: Scheme::Rs, e: 1024, b: 8, p: 1, ifti: true };
            sp.w = w;
            sp.maxc = maxc;
            let mut ob = ObjP::default();
            ob.oti = Some(OtiP { sch: Scheme::Rs, e: 8, b: 4, p: 1, ifti: true });
            ob.sz = 8 * 4 * 6 + 5;
            sp.objs.push(ob);
            push(sp, &mut cases, vec![Plan::Full]);
        }
    }
    cases
}

pub fn gen_c02(seed: u64, thorough: bool) -> Vec<CaseSpec> {
    let mut rng = Rng::new(seed ^ 0xC02);
    let mut cases = Vec::new();
    let mut n = 0usize;
    let mut push = |sp: SessP, cases: &mut Vec<CaseSpec>, plans: Vec<Plan>| {
        n += 1;
        cases.push(CaseSpec { id: format!("C02-{}", n), sp, plans });
    };
    let base = |sch: Scheme| {
        let mut sp = SessP::default();
        sp.prop = "C02".into();
        // FDT: one source symbol + one repair symbol (RS) so that the FDT threshold is in the scope
        sp.oti = OtiP { sch, e: 1024, b: 8, p: if sch == Scheme::NoCode { 0 } else { 1 }, ifti: true };
        sp
    };
    // (a) exhaustive subsets: RS (2,1), (3,2), (2,2)+(3,2) unequal blocks
    for sch in [Scheme::Rs, Scheme::RsUs] {
        for (sz, b, p) in [(8u64, 2u32, 1u32), (12, 3, 2), (11, 3, 2), (20, 3, 2), (17, 3, 2)] {
            for w in [1u32, 2, 3] {
                for ifti in [true, false] {
                    for m in [1u32, 2] {
                        for ro in [true, false] {
                            if (m == 2 && sz > 12) || (!ro && m == 1) {
                                continue;
                            }
                            if sch == Scheme::RsUs && (!ifti || m == 2) && sz != 20 {
                                continue;
                            }
                            let mut sp = base(Scheme::Rs);
                            sp.w = w;
                            sp.ro = ro;
                            let mut ob = ObjP::default();
                            ob.sz = sz;
                            ob.m = m;
                            ob.oti = Some(OtiP { sch, e: 4, b, p, ifti });
                            sp.objs.push(ob);
                            push(sp, &mut cases, vec![Plan::Exhaustive { objects_only: sz > 12 && !(sz == 20 && w == 2) }]);
                        }
                    }
                }
            }
        }
    }
    // (b) codec contract: every subset of one block, k + p <= 8, through the public receiver path
    for sch in Scheme::ALL {
        for k in 1u32..=8 {
            for p in 0u32..=(8 - k) {
                if sch == Scheme::NoCode && p > 0 {
                    continue;
                }
                if matches!(sch, Scheme::Rs | Scheme::RsUs) && p == 0 {
                    continue; // D21 (C01, sender)
                }
                if sch == Scheme::Raptor && k < 4 {
                    continue; // raptor-block-lt4 (C01, sender)
                }
                let mut sp = base(Scheme::Rs);
                let mut ob = ObjP::default();
                ob.sz = (k as u64) * 4 - (k as u64 % 3);
                ob.oti = Some(OtiP { sch, e: 4, b: 8, p, ifti: k % 2 == 0 });
                sp.objs.push(ob);
                push(sp, &mut cases, vec![Plan::Exhaustive { objects_only: true }]);
            }
        }
    }
    // (c) sampled masks / duplications on ~100-packet sessions, all schemes
    let reps = if thorough { 40 } else { 2 };
    for rep in 0..reps {
        for sch in Scheme::ALL {
            for w in [1u32, 2, 3, 4] {
                let mut sp = base(if sch == Scheme::NoCode { Scheme::Rs } else { sch });
                if matches!(sp.oti.sch, Scheme::Raptor) {
                    sp.oti = OtiP { sch: Scheme::Raptor, e: 128, b: 8, p: 2, ifti: true };
                }
                sp.w = w;
                sp.ro = rng.bool();
                sp.full = rng.bool();
                sp.mux = vec![*rng.pick(&[1u32, 2, 3])];
                if rng.chance(1, 4) {
                    sp.toi0 = *rng.pick(&TOI0S);
                }
                if rng.chance(1, 4) {
                    sp.fid0 = *rng.pick(&[0xFFFFCu32, 0xFFFFE, 0xFFFFF]);
                }
                let nobj = 1 + rng.below(3);
                for _ in 0..nobj {
                    let mut ob = ObjP::default();
                    let b = *rng.pick(&[4u32, 5, 7]);
                    let p = if sch == Scheme::NoCode { 0 } else { *rng.pick(&[1u32, 2, 3]) };
                    let e = *rng.pick(&[2u32, 4, 8]);
                    ob.oti = Some(OtiP { sch, e, b, p, ifti: rng.bool() });
                    let nsym = if sch == Scheme::Raptor { 4 * (2 + rng.below(4)) + rng.below(2) * (b as u64 * 3) } else { 5 + rng.below(40) };
                    ob.sz = nsym * e as u64 - rng.below(e as u64);
                    if sch == Scheme::Raptor {
                        // every block must have >= 4 source symbols
                        let ks = rfc_ks(&ob.oti.unwrap(), ob.sz);
                        if ks.iter().any(|k| *k < 4) {
                            ob.sz = 4 * b as u64 * e as u64;
                        }
                    }
                    ob.seed = rng.below(10_000);
                    ob.m = *rng.pick(&[1u32, 2, 3]);
                    sp.objs.push(ob);
                }
                let s = seed.wrapping_mul(31).wrapping_add(rep * 1000 + w as u64 * 17 + sch as u64);
                push(sp, &mut cases, vec![Plan::Full, Plan::Sampled { count: if thorough { 300 } else { 60 }, seed: s }, Plan::Dups { count: if thorough { 100 } else { 20 }, seed: s ^ 5 }]);
            }
        }
    }
    // (d) FDT lost at its threshold: FDT of several symbols with p repair symbols
    for sch in [Scheme::Rs, Scheme::RsUs, Scheme::NoCode, Scheme::RaptorQ] {
        for p in [1u32, 2, 3] {
            let mut sp = base(sch);
            sp.oti = OtiP { sch, e: 64, b: 16, p: if sch == Scheme::NoCode { 0 } else { p }, ifti: true };
            let mut ob = ObjP::default();
            ob.sz = 23;
            ob.oti = Some(OtiP { sch: Scheme::Rs, e: 4, b: 3, p: 2, ifti: p % 2 == 0 });
            sp.objs.push(ob);
            push(sp, &mut cases, vec![Plan::FdtThreshold { seed: seed + p as u64 }]);
        }
    }
    // (e) FDT carousel copies between and after the object's packets: which copy arrives must not matter
    for sch in [Scheme::Rs, Scheme::NoCode, Scheme::RaptorQ] {
        for ifti in [true, false] {
            for m in [1u32, 2] {
                let mut sp = base(Scheme::Rs);
                sp.dt = 1000;
                sp.idle = 1000;
                sp.fcar = Car::Delay(3000);
                sp.tail = 12;
                let mut ob = ObjP::default();
                ob.sz = 23;
                ob.m = m;
                ob.oti = Some(OtiP { sch, e: 4, b: 3, p: if sch == Scheme::NoCode { 0 } else { 2 }, ifti });
                sp.objs.push(ob);
                push(sp, &mut cases, vec![Plan::Full, Plan::FdtPlacement]);
            }
        }
    }
    // (f) receiver resource limits (findings D32): the object is larger than object_max_cache_size and the
    // first FDT copy is lost, so that the receiver has to hold the object without a writer: blocks of 8
    // bytes, cache of 2 blocks, 4 / 5 / 6 blocks; in-band (block-allocation limit) and FDT-only (packet cache)
    for sch in [Scheme::NoCode, Scheme::Rs] {
        for ifti in [true, false] {
            for nblk in [4u64, 5, 6] {
                for maxc in [16u64, 24, 64] {
                    let mut sp = base(Scheme::Rs);
                    sp.dt = 1000;
                    sp.idle = 1000;
                    sp.fcar = Car::Delay(3000);
                    sp.tail = 6;
                    sp.maxc = maxc;
                    let mut ob = ObjP::default();
                    ob.sz = nblk * 8 - 1;
                    ob.oti = Some(OtiP { sch, e: 4, b: 2, p: if sch == Scheme::NoCode { 0 } else { 1 }, ifti });
                    sp.objs.push(ob);
                    push(sp, &mut cases, vec![Plan::Full, Plan::FdtPlacement]);
                }
            }
        }
    }
    // (h) the 4097-block look-ahead window (2 * MAX_PREALLOCATED_BLOCKS + 1): an object of more than 4097 blocks, two
    // transfers, transfer 1 loses an early block (a hole only the next transfer fills): every symbol beyond the window
    // restarts the object (open, error), transfer 2 delivers it - and an object inside the window (4000 blocks) with the
    // same hole is delivered without a single error call
    // (the model's symbol lists are quadratic: objects beyond the real window in the thorough tier only; the quick tier
    // pins the window from inside - 600 / 1200 blocks with the hole must not see a single error call)
    let win: Vec<(Scheme, u32, u32, u64)> = if thorough {
        vec![(Scheme::NoCode, 16, 1, 4300), (Scheme::NoCode, 16, 1, 4000), (Scheme::RsUs, 8, 1, 4200), (Scheme::NoCode, 16, 1, 600)]
    } else {
        vec![(Scheme::NoCode, 16, 1, 600), (Scheme::NoCode, 4, 1, 1200), (Scheme::RsUs, 8, 1, 800)]
    };
    for (sch, e, b, nblk) in win {
        let mut sp = base(Scheme::Rs);
        let mut ob = ObjP::default();
        ob.sz = nblk * e as u64 * b as u64;
        ob.m = 2;
        ob.oti = Some(OtiP { sch, e, b, p: if sch == Scheme::NoCode { 0 } else { 1 }, ifti: nblk % 200 == 0 });
        sp.objs.push(ob);
        push(sp, &mut cases, vec![Plan::HoleFirstTransfer]);
    }
    // (g) ObjectsBeingTransferred: an object announced only by an OLDER, still valid FDT instance (the newest complete
    // instance lists another object) must still be attached when its packets arrive
    for sch in [Scheme::NoCode, Scheme::Rs, Scheme::RaptorQ] {
        for ifti in [true, false] {
            for nobj in [2usize, 3] {
                let mut sp = base(Scheme::Rs);
                sp.full = false;
                sp.mux = vec![1];
                sp.ro = ifti;
                if nobj == 3 {
                    sp.fid0 = 0xFFFFE;
                }
                for j in 0..nobj {
                    let mut ob = ObjP::default();
                    ob.oti = Some(OtiP { sch, e: 4, b: 3, p: if sch == Scheme::NoCode { 0 } else { 1 }, ifti });
                    ob.sz = 20 + 3 * j as u64;
                    ob.seed = j as u64;
                    ob.m = if j == 0 { 2 } else { 1 };
                    sp.objs.push(ob);
                }
                push(sp, &mut cases, vec![Plan::Full, Plan::OlderFdt]);
            }
        }
    }
    // the same at the DEFAULT configuration (10 MiB): a 21 MB No-Code object (234 blocks of 64 x 1400 bytes),
    // FDT repeated every 100 ms = 10000 packets, only the first FDT copy lost
    if thorough {
        for ifti in [true, false] {
            let mut sp = base(Scheme::NoCode);
            sp.oti = OtiP { sch: Scheme::NoCode, e: 1400, b: 64, p: 0, ifti: true };
            sp.dt = 10;
            sp.idle = 10;
            sp.fcar = Car::Delay(100_000);
            let mut ob = ObjP::default();
            ob.sz = 20_966_400;
            ob.ck = 'p';
            ob.md5 = false;
            ob.oti = Some(OtiP { sch: Scheme::NoCode, e: 1400, b: 64, p: 0, ifti });
            sp.objs.push(ob);
            push(sp, &mut cases, vec![Plan::FdtPlacement]);
        }
    }
    cases
}

pub fn gen_c16(seed: u64, thorough: bool) -> Vec<CaseSpec> {
    let mut rng = Rng::new(seed ^ 0xC16);
    let mut cases = Vec::new();
    let mut n = 0usize;
    for _round in 0..(if thorough { 6 } else { 1 }) {
    for sch in Scheme::ALL {
        for inband in [true, false] {
            for nobj in 1usize..=3 {
                for car in [Car::Delay(2000), Car::Interval(40_000)] {
                    for full in [true, false] {
                        let mut sp = SessP::default();
                        sp.prop = "C16".into();
                        sp.oti = OtiP { sch, e: 256, b: 4, p: if sch == Scheme::NoCode { 0 } else { 1 }, ifti: true };
                        if sch == Scheme::Raptor {
                            // a Raptor block needs >= 4 source symbols (raptor-block-lt4), the FDT included
                            sp.oti = OtiP { sch, e: 64, b: 8, p: 1, ifti: true };
                        }
                        sp.full = full;
                        sp.w = 1 + rng.below(3) as u32;
                        sp.mux = vec![*rng.pick(&[1u32, 2])];
                        sp.dt = 1000;
                        sp.idle = 1000;
                        sp.fcar = Car::Delay(*rng.pick(&[20_000u64, 60_000]));
                        sp.n = 1200;
                        // every third session hands out wide TOIs (an object seen before its FDT must
                        // still be attached when the FDT completes, whatever the width of its TOI)
                        if n % 3 == 1 {
                            sp.toi0 = TOI0S[(n / 3) % TOI0S.len()];
                        }
                        // FDT Instance IDs across the 20-bit wrap (the newest instance is not the one with the highest id)
                        // (both publish modes: n % 8 in {1, 2}; in ObjectsBeingTransferred mode one queue slot so that
                        // the objects - and their FDT instances - follow each other)
                        if n % 8 == 1 || n % 8 == 2 {
                            sp.fid0 = [0xFFFFCu32, 0xFFFFE, 0xFFFFF, 0xFFFFD][(n / 8) % 4];
                            if !full {
                                sp.mux = vec![1];
                            }
                        }
                        for j in 0..nobj {
                            let mut ob = ObjP::default();
                            let e = *rng.pick(&[4u32, 8]);
                            let b = *rng.pick(&[4u32, 5]);
                            ob.oti = Some(OtiP { sch, e, b, p: if sch == Scheme::NoCode { 0 } else { 1 + rng.below(2) as u32 }, ifti: inband });
                            ob.sz = match (j + n) % 4 {
                                3 if thorough || n % 3 == 0 => 0,
                                _ => (4 + rng.below(3 * b as u64)) * e as u64 - rng.below(e as u64),
                            };
                            if sch == Scheme::Raptor && ob.sz > 0 {
                                let ks = rfc_ks(&ob.oti.unwrap(), ob.sz);
                                if ks.iter().any(|k| *k < 4) {
                                    ob.sz = 4 * b as u64 * e as u64;
                                }
                            }
                            ob.seed = rng.below(10_000);
                            ob.car = car;
                            // EXT_CENC independent of EXT_FTI: a late joiner must take the content
                            // encoding from the FDT when only the FTI travels in-band
                            ob.icenc = if (n + j) % 2 == 0 { inband } else { !inband };
                            if (n + j) % 3 == 0 && ob.sz > 0 && sch != Scheme::Raptor {
                                ob.cenc = ["zlib", "deflate", "gzip"][(n / 3 + j) % 3].into();
                                ob.ck = 'p';
                            }
                            sp.objs.push(ob);
                        }
                        n += 1;
                        // Raptor / RaptorQ: every other session without repair symbols (compared with the
                        // model), the others with repair symbols (oracle-only `jprobe` runs)
                        if matches!(sch, Scheme::Raptor | Scheme::RaptorQ) && n % 2 == 0 {
                            sp.oti.p = 0;
                            for o in sp.objs.iter_mut() {
                                if let Some(x) = o.oti.as_mut() {
                                    x.p = 0;
                                }
                            }
                        }
                        // (Plan::JoinFault - a one-shot open() failure - is NOT generated: on the unmodified tree the empty
                        // object whose first packet precedes its FDT and whose second packet meets the fault needs a THIRD
                        // cycle, so "two further cycles" does not hold under storage faults; C16 does not quantify over them)
                        cases.push(CaseSpec { id: format!("C16-{}", n), sp, plans: vec![Plan::JoinAll] });
                    }
                }
            }
        }
    }
    }
    // receiver resource limits (finding D33): objects larger than object_max_cache_size joined late; blocks of
    // 8 bytes, cache of 2 / 3 blocks, block count a multiple of that (phase lock) and not; and objects that fit
    for sch in [Scheme::NoCode, Scheme::Rs] {
        for inband in [true, false] {
            for (nblk, maxc) in [(4u64, 16u64), (5, 16), (6, 24), (7, 24), (4, 64), (3, 24)] {
                let mut sp = SessP::default();
                sp.prop = "C16".into();
                sp.oti = OtiP { sch: Scheme::Rs, e: 256, b: 4, p: 1, ifti: true };
                sp.dt = 1000;
                sp.idle = 1000;
                sp.fcar = Car::Delay(20_000);
                sp.n = 400;
                sp.maxc = maxc;
                let mut ob = ObjP::default();
                ob.oti = Some(OtiP { sch, e: 4, b: 2, p: if sch == Scheme::NoCode { 0 } else { 1 }, ifti: inband });
                ob.sz = nblk * 8;
                ob.car = Car::Delay(2000);
                sp.objs.push(ob);
                n += 1;
                cases.push(CaseSpec { id: format!("C16-{}", n), sp, plans: vec![Plan::JoinCycles(2)] });
            }
        }
    }
    // join offsets over three consecutive cycles (the phases of the FDT carousel and of the object
    // carousels drift against each other)
    for sch in [Scheme::NoCode, Scheme::Rs] {
        for inband in [true, false] {
            for full in [true, false] {
                let mut sp = SessP::default();
                sp.prop = "C16".into();
                sp.oti = OtiP { sch: Scheme::Rs, e: 256, b: 4, p: 1, ifti: true };
                sp.full = full;
                sp.dt = 1000;
                sp.idle = 1000;
                sp.mux = vec![2];
                sp.fcar = Car::Delay(17_000);
                sp.n = 1500;
                for j in 0..2u64 {
                    let mut ob = ObjP::default();
                    ob.oti = Some(OtiP { sch, e: 4, b: 3, p: if sch == Scheme::NoCode { 0 } else { 1 }, ifti: inband });
                    ob.sz = 30 + 7 * j;
                    ob.seed = j;
                    ob.car = if j == 0 { Car::Delay(3000) } else { Car::Interval(23_000) };
                    sp.objs.push(ob);
                }
                n += 1;
                cases.push(CaseSpec { id: format!("C16-{}", n), sp, plans: vec![Plan::JoinCycles(3)] });
            }
        }
    }
    cases
}
