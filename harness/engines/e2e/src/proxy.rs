//! Watchdog: every operation is executed by a CHILD process (this same binary in `worker` mode);
//! the parent waits for the answer with a time-out, kills a child that hangs (known defect D15
//! spins forever inside the receiver) and restarts it, restoring the current session.
use std::io::{BufRead, BufReader, Write};
use std::process::{Child, ChildStdin, Command, Stdio};
use std::sync::mpsc::{channel, Receiver, RecvTimeoutError};
use std::time::Duration;

pub struct Proxy {
    child: Child,
    stdin: ChildStdin,
    rx: Receiver<String>,
    pub last_session: Option<String>,
    pub base_timeout: Duration,
    pub timeouts: u64,
}

fn spawn() -> (Child, ChildStdin, Receiver<String>) {
    let exe = std::env::current_exe().expect("current_exe");
    let mut child = Command::new(exe)
        .env("E2E_PARENT", std::process::id().to_string())
        .arg("worker")
        .arg("-")
        .arg("-")
        .stdin(Stdio::piped())
        .stdout(Stdio::piped())
        .stderr(Stdio::null())
        .spawn()
        .expect("spawn worker");
    let stdin = child.stdin.take().unwrap();
    let stdout = child.stdout.take().unwrap();
    let (tx, rx) = channel();
    std::thread::spawn(move || {
        let r = BufReader::new(stdout);
        for l in r.lines() {
            match l {
                Ok(l) => {
                    if let Some(a) = l.strip_prefix("\x01R") {
                        if tx.send(a.to_string()).is_err() {
                            break;
                        }
                    }
                }
                Err(_) => break,
            }
        }
    });
    (child, stdin, rx)
}

impl Proxy {
    pub fn new(base_timeout: Duration) -> Proxy {
        let (child, stdin, rx) = spawn();
        Proxy { child, stdin, rx, last_session: None, base_timeout, timeouts: 0 }
    }

    fn restart(&mut self) {
        self.child.kill().ok();
        self.child.wait().ok();
        let (child, stdin, rx) = spawn();
        self.child = child;
        self.stdin = stdin;
        self.rx = rx;
    }

    fn raw(&mut self, op: &str, timeout: Duration) -> Option<String> {
        if writeln!(self.stdin, "{}", op).is_err() || self.stdin.flush().is_err() {
            return None;
        }
        match self.rx.recv_timeout(timeout) {
            Ok(l) => Some(l),
            Err(RecvTimeoutError::Timeout) => None,
            Err(RecvTimeoutError::Disconnected) => None,
        }
    }

    pub fn reset(&mut self) {
        self.last_session = None;
    }

    /// returns (observation, oracle failures)
    pub fn exec(&mut self, op: &str) -> (String, Vec<(String, String)>) {
        let is_session = op.starts_with("e2e session ");
        // sessions with many packets legitimately take longer
        let extra = match &self.last_session {
            Some(s) if !is_session => s.len() as u64 / 2000,
            _ => 0,
        };
        let timeout = self.base_timeout + Duration::from_secs(extra) + if is_session || op.starts_with("e2e derive") { Duration::from_secs(40) } else { Duration::ZERO };
        let mut answer = self.raw(op, timeout);
        if answer.is_none() {
            // confirmation: on a loaded machine the child can be starved for seconds.  The child is replaced,
            // the session restored, and the operation repeated with three times the (already generous) time: a call that really
            // never returns survives that too
            self.restart();
            let mut ready = true;
            if !is_session {
                if let Some(s) = self.last_session.clone() {
                    ready = self.raw(&s, self.base_timeout * 3 + Duration::from_secs(40)).is_some();
                }
            }
            if ready {
                answer = self.raw(op, timeout * 3);
            }
        }
        match answer {
            Some(l) => {
                if is_session {
                    self.last_session = Some(op.to_string());
                }
                let mut parts = l.split('\x1f');
                let obs = parts.next().unwrap_or("").to_string();
                let fails = parts
                    .filter_map(|p| p.split_once('\x1e').map(|(a, b)| (a.to_string(), b.to_string())))
                    .collect();
                (obs, fails)
            }
            None => {
                self.timeouts += 1;
                self.restart();
                let sess = if is_session { Some(op.to_string()) } else { self.last_session.clone() };
                let (prop, cenc) = match &sess {
                    Some(s) => (
                        s.split("prop=").nth(1).and_then(|x| x.split(' ').next()).unwrap_or("C01").to_string(),
                        s.contains("cenc=zlib") || s.contains("cenc=deflate") || s.contains("cenc=gzip"),
                    ),
                    None => ("C01".to_string(), false),
                };
                if !is_session {
                    if let Some(s) = self.last_session.clone() {
                        // restore the session in the fresh child
                        if self.raw(&s, self.base_timeout + Duration::from_secs(40)).is_none() {
                            self.restart();
                        }
                    }
                }
                let cls = if cenc && !is_session { format!("{}:D15-inflate-hang", prop) } else { format!("{}:hang", prop) };
                (
                    "TIMEOUT".to_string(),
                    vec![(cls, format!("no answer within {:?} (watchdog): the call never returns", timeout))],
                )
            }
        }
    }
}

impl Drop for Proxy {
    fn drop(&mut self) {
        self.child.kill().ok();
        self.child.wait().ok();
    }
}
