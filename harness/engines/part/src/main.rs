//! C07: block partitioning.  Real functions (through the verif hooks) vs model; oracle = RFC 5052
//! formulas in u128.
use harness_core::{guarded, Ctx, Engine, Oracle, Rng};
use flute::verif_hooks as hk;

fn ceil128(a: u128, b: u128) -> u128 {
    (a + b - 1) / b
}

/// RFC 5052 §9.1 in 128-bit arithmetic: (a_large, a_small, I, N)
pub fn rfc(b: u128, l: u128, e: u128) -> (u128, u128, u128, u128) {
    if b == 0 || e == 0 {
        return (0, 0, 0, 0);
    }
    let t = ceil128(l, e);
    let n = ceil128(t, b);
    if n == 0 {
        return (0, 0, 0, 0);
    }
    (ceil128(t, n), t / n, t - (t / n) * n, n)
}

pub struct PartEngine;

impl Engine for PartEngine {
    fn reset(&mut self) {}
    fn exec(&mut self, op: &str, o: &mut Oracle) -> String {
        let t: Vec<&str> = op.split(' ').collect();
        let n: Vec<u64> = t[2..].iter().filter_map(|x| x.parse().ok()).collect();
        match (t[1], n.len()) {
            ("bp", 3) => {
                let (b, l, e) = (n[0], n[1], n[2]);
                let r = guarded(move || hk::block_partitioning(b, l, e));
                let want = rfc(b as u128, l as u128, e as u128);
                match r {
                    Ok(q) => {
                        if (q.0 as u128, q.1 as u128, q.2 as u128, q.3 as u128) != want {
                            o.fail("bp-ne-rfc", &format!("block_partitioning = {:?}, RFC 5052 = {:?}", q, want));
                        }
                        format!("ok {} {} {} {}", q.0, q.1, q.2, q.3)
                    }
                    Err(loc) => {
                        o.fail("bp-panic", &format!("block_partitioning panics at {}", loc));
                        "PANIC".to_string()
                    }
                }
            }
            ("bl", 6) => {
                let (al, asm, nl, l, e, s) = (n[0], n[1], n[2], n[3], n[4], n[5]);
                let r = guarded(move || hk::block_length(al, asm, nl, l, e, s as u32));
                // oracle (only meaningful for a quadruple that IS an RFC partition of (l,e) and sbn < N;
                // the generator only issues those): byte length of block s
                let (wal, was, wi) = (al as u128, asm as u128, nl as u128);
                let s128 = s as u128;
                let first = if s128 <= wi { s128 * wal } else { wi * wal + (s128 - wi) * was };
                let k = if s128 < wi { wal } else { was };
                let wantlen = ((first + k) * e as u128).min(l as u128) - (first * e as u128).min(l as u128);
                // the oracle applies to quadruples that are the RFC partition of some B for (l, e), with sbn < N and in-range
                // sizes; hostile quadruples / out-of-range SBNs are compared with the model only (callers guard them: C04)
                let t = if e == 0 { 0 } else { ceil128(l as u128, e as u128) };
                let nn = if wal > 0 && was > 0 && wi * wal <= t && (t - wi * wal) % was == 0 { wi + (t - wi * wal) / was } else { 0 };
                let genuine = e > 0 && l > 0 && nn > 0 && s128 < nn && wi < nn && (wal == was + 1 || (wi == 0 && wal == was))
                    && rfc(wal, l as u128, e as u128) == (wal, was, wi, nn);
                match r {
                    Ok(v) => {
                        if genuine && v as u128 != wantlen {
                            o.fail("bl-ne-rfc", &format!("block_length = {}, RFC = {}", v, wantlen));
                        }
                        format!("ok {}", v)
                    }
                    Err(loc) => {
                        if genuine {
                            o.fail("bl-panic", &format!("block_length panics at {}", loc));
                        }
                        "PANIC".to_string()
                    }
                }
            }
            ("blh", 6) => {
                // hostile call: PANIC / no PANIC only (see the generator's `hostile-bl` family)
                let (al, asm, nl, l, e, s) = (n[0], n[1], n[2], n[3], n[4], n[5]);
                match guarded(move || hk::block_length(al, asm, nl, l, e, s as u32)) {
                    Ok(_) => "ok".to_string(),
                    Err(_) => "PANIC".to_string(),
                }
            }
            ("snd", 3) => sender_blocks(n[0], n[1], n[2], o),
            ("fti", 4) => fti_reconstruct(n[0], n[1], n[2], n[3], o),
            ("sbl", 3) => sender_wire_sbl(n[0], n[1], n[2], o),
            ("rcv", 5) => receiver_blocks(n[0], n[1] != 0, n[2], n[3], n[4], o),
            ("rq", 3) => raptor_reconstruct(true, n[0], n[1], n[2], o),
            ("rp", 3) => raptor_reconstruct(false, n[0], n[1], n[2], o),
            ("rqc", 4) => raptor_reconstruct_c(true, n[0], n[1], n[2], Some(n[3]), o),
            ("rpc", 4) => raptor_reconstruct_c(false, n[0], n[1], n[2], Some(n[3]), o),
            _ => "bad-op".to_string(),
        }
    }
}

/// recording writer: one `write` call per source block when cenc is null
#[derive(Default)]
struct RecShared {
    writes: Vec<(u32, usize)>,
    bytes: Vec<u8>,
    complete: u32,
    error: u32,
}
struct RecBuilder(std::rc::Rc<std::cell::RefCell<RecShared>>);
struct RecWriter(std::rc::Rc<std::cell::RefCell<RecShared>>);
use flute::receiver::writer::{ObjectMetadata, ObjectWriter, ObjectWriterBuilder, ObjectWriterBuilderResult};
impl ObjectWriterBuilder for RecBuilder {
    fn new_object_writer(&self, _e: &flute::core::UDPEndpoint, _tsi: &u64, _toi: &u128, _m: &ObjectMetadata, _now: std::time::SystemTime) -> ObjectWriterBuilderResult {
        ObjectWriterBuilderResult::StoreObject(Box::new(RecWriter(self.0.clone())))
    }
    fn update_cache_control(&self, _e: &flute::core::UDPEndpoint, _tsi: &u64, _toi: &u128, _m: &ObjectMetadata, _now: std::time::SystemTime) {}
    fn fdt_received(&self, _e: &flute::core::UDPEndpoint, _tsi: &u64, _x: &str, _ex: std::time::SystemTime, _m: &ObjectMetadata, _d: std::time::Duration, _now: std::time::SystemTime, _t: Option<std::time::SystemTime>) {}
}
impl ObjectWriter for RecWriter {
    fn open(&self, _now: std::time::SystemTime) -> flute::error::Result<()> {
        Ok(())
    }
    fn write(&self, sbn: u32, data: &[u8], _now: std::time::SystemTime) -> flute::error::Result<()> {
        let mut s = self.0.borrow_mut();
        s.writes.push((sbn, data.len()));
        s.bytes.extend_from_slice(data);
        Ok(())
    }
    fn complete(&self, _now: std::time::SystemTime) {
        self.0.borrow_mut().complete += 1;
    }
    fn error(&self, _now: std::time::SystemTime) {
        self.0.borrow_mut().error += 1;
    }
    fn interrupted(&self, _now: std::time::SystemTime) {
        self.0.borrow_mut().error += 1;
    }
    fn enable_md5_check(&self) -> bool {
        false
    }
}

/// C07 (5c): the source block length a REAL sender writes into the payload id of every packet of block sbn under
/// RS under-specified (FEC 129); observation `ok k0 k1 ...` (one value per block; all packets of a block must agree).
fn sender_wire_sbl(b: u64, l: u64, e: u64, o: &mut Oracle) -> String {
    let r = guarded(move || -> Result<Vec<u64>, String> {
        let oti = flute::core::Oti::new_reed_solomon_rs28_under_specified(e as u16, b as u16, 1).map_err(|e| format!("{:?}", e))?;
        let mut sender = mk_sender(&oti, l)?;
        let now = std::time::UNIX_EPOCH + std::time::Duration::from_secs(1_700_000_000);
        let mut sbls: Vec<Option<u64>> = Vec::new();
        for _ in 0..200_000 {
            let data = match sender.read(now) {
                Some(d) => d,
                None => break,
            };
            let pkt = flute::core::alc::parse_alc_pkt(&data).map_err(|e| format!("{:?}", e))?;
            if pkt.lct.toi == 0 || l == 0 {
                continue;
            }
            let pid = flute::core::alc::parse_payload_id(&pkt, &oti).map_err(|e| format!("{:?}", e))?;
            let k = pid.source_block_length.ok_or("payload id without source block length")? as u64;
            let sbn = pid.sbn as usize;
            while sbls.len() <= sbn {
                sbls.push(None);
            }
            match sbls[sbn] {
                None => sbls[sbn] = Some(k),
                Some(x) if x != k => return Err(format!("block {} announced with {} and {}", sbn, x, k)),
                _ => {}
            }
        }
        Ok(sbls.into_iter().map(|x| x.unwrap_or(0)).collect())
    });
    match r {
        Ok(Ok(ks)) => {
            let (al, asm, i, n) = rfc(b as u128, l as u128, e as u128);
            let ok = ks.len() as u128 == n && ks.iter().enumerate().all(|(s, k)| *k as u128 == if (s as u128) < i { al } else { asm });
            if !ok {
                o.fail("sbl-ne-rfc", &format!("wire source block lengths {:?} differ from the RFC 5052 partition {:?}", ks, (al, asm, i, n)));
            }
            let mut s = "ok".to_string();
            for k in ks {
                s.push_str(&format!(" {}", k));
            }
            s
        }
        Ok(Err(e)) => format!("ERR {}", e.chars().take(60).collect::<String>().replace(' ', "_")),
        Err(loc) => {
            o.fail("sbl-panic", &format!("sender panics at {}", loc));
            "PANIC".to_string()
        }
    }
}

/// C07 (6) at full field range, without running a codec: an EXT_FTI built by the real packet builder from an OTI
/// with the given (F = l, T = e, Z = z) is parsed back by the real parser; observation `ok <B'>`.
/// scheme 6 = RaptorQ (F < 2^40, Z < 2^8), 1 = Raptor (F < 2^48, Z < 2^16).
fn fti_reconstruct(scheme: u64, l: u64, e: u64, z: u64, o: &mut Oracle) -> String {
    let r = guarded(move || -> Result<u64, String> {
        let kind = if scheme == 6 { 1 } else { 2 };
        let oti = hk::make_oti(scheme as u8, 0, 64, e as u16, 0, Some((kind, z as u32, 1, 1)), true).ok_or("make_oti")?;
        let pkt = hk::PktFields {
            payload: vec![0u8; 4],
            transfer_length: l,
            esi: 0,
            sbn: 0,
            toi: 1,
            fdt_id: None,
            cenc: flute::core::lct::Cenc::Null,
            inband_cenc: false,
            close_object: false,
            source_block_length: 1,
            sender_current_time: false,
        };
        let data = hk::new_alc_pkt(&oti, &0u128, 1, &pkt, false, std::time::UNIX_EPOCH);
        let p = flute::core::alc::parse_alc_pkt(&data).map_err(|e| format!("{:?}", e))?;
        let po = p.oti.as_ref().ok_or("no FTI")?;
        if p.transfer_length != Some(l) {
            return Err(format!("transfer length {:?}", p.transfer_length));
        }
        Ok(po.maximum_source_block_length as u64)
    });
    match r {
        Ok(Ok(b2)) => {
            // oracle: B' = ceil(ceil(F/Z)/T) in u128
            let want = ceil128(ceil128(l as u128, z as u128), e as u128);
            // (B' is a u32 in flute; it fits whenever Z = N(B, L, E) for a 32-bit B, since then B' <= B)
            if want < (1u128 << 32) && b2 as u128 != want {
                o.fail("fti-reconstruct", &format!("parser reconstructs B'={} from F={} T={} Z={}, expected {}", b2, l, e, z, want));
            }
            format!("ok {}", b2)
        }
        Ok(Err(_)) => "ERR".to_string(),
        Err(loc) => {
            o.fail("fti-panic", &format!("FTI build/parse panics at {}", loc));
            "PANIC".to_string()
        }
    }
}

fn content(l: u64) -> Vec<u8> {
    (0..l).map(|i| (i * 7 + 3) as u8).collect()
}

/// C07 (5b): what the REAL receiver derives.  scheme 0 No-Code, 1 RS GF(2^8), 2 RS under-specified (block length in
/// the payload id), 3 RaptorQ, 4 Raptor (B reconstructed from Z); `inband` = FTI in every packet, else only in the FDT.
/// A real sender's packets are pushed in order into a real receiver with a recording writer; with cenc null the
/// receiver issues one `write(sbn, block bytes)` per source block, so the observation `ok len0 len1 ...` is the
/// receiver-side block partition.  Oracle: RFC byte lengths, object byte-exact, completed once.
fn receiver_blocks(scheme: u64, inband: bool, b: u64, l: u64, e: u64, o: &mut Oracle) -> String {
    let r = guarded(move || -> Result<RecShared, String> {
        use flute::core::Oti;
        let mut oti = match scheme {
            0 => Oti::new_no_code(e as u16, b as u16),
            1 => Oti::new_reed_solomon_rs28(e as u16, b as u8, 2).map_err(|e| format!("{:?}", e))?,
            2 => Oti::new_reed_solomon_rs28_under_specified(e as u16, b as u16, 2).map_err(|e| format!("{:?}", e))?,
            3 => Oti::new_raptorq(e as u16, b as u16, 2, 1, 4).map_err(|e| format!("{:?}", e))?,
            _ => Oti::new_raptor(e as u16, b as u16, 2, 1, 4).map_err(|e| format!("{:?}", e))?,
        };
        oti.inband_fti = inband;
        let mut sender = mk_sender(&oti, l)?;
        let now = std::time::UNIX_EPOCH + std::time::Duration::from_secs(1_700_000_000);
        let shared = std::rc::Rc::new(std::cell::RefCell::new(RecShared::default()));
        let ep = flute::core::UDPEndpoint::new(None, "224.0.0.1".to_string(), 3400);
        let mut rx = flute::receiver::MultiReceiver::new(std::rc::Rc::new(RecBuilder(shared.clone())), None, false);
        let mut guard = 0;
        while let Some(data) = sender.read(now) {
            guard += 1;
            if guard > 200_000 {
                return Err("too many packets".into());
            }
            let r = rx.push(&ep, &data, now);
            if std::env::var("VERIF_DEBUG").is_ok() {
                if let Err(e) = r {
                    eprintln!("push error: {:?}", e);
                }
            }
        }
        drop(rx);
        let s = std::mem::take(&mut *shared.borrow_mut());
        Ok(s)
    });
    match r {
        Ok(Ok(s)) => {
            let (al, asm, i, n) = rfc(b as u128, l as u128, e as u128);
            let mut first: u128 = 0;
            let mut ok = s.writes.len() as u128 == n && s.complete == 1 && s.error == 0 && s.bytes == content(l);
            for (idx, (sbn, len)) in s.writes.iter().enumerate() {
                let kk = if (idx as u128) < i { al } else { asm };
                let want = ((first + kk) * e as u128).min(l as u128) - (first * e as u128).min(l as u128);
                if *sbn as usize != idx || *len as u128 != want {
                    ok = false;
                }
                first += kk;
            }
            if !ok {
                o.fail(
                    "rcv-ne-rfc",
                    &format!(
                        "receiver wrote blocks {:?} complete={} error={} bytes_exact={}, RFC 5052 partition is {:?}",
                        s.writes, s.complete, s.error, s.bytes == content(l), (al, asm, i, n)
                    ),
                );
            }
            let mut out = format!("ok c{} e{}", s.complete, s.error);
            for (_, len) in s.writes {
                out.push_str(&format!(" {}", len));
            }
            out
        }
        Ok(Err(e)) => format!("ERR {}", e.chars().take(200).collect::<String>().replace(' ', "_")),
        Err(loc) => {
            o.fail("rcv-panic", &format!("sender→receiver session panics at {}", loc));
            "PANIC".to_string()
        }
    }
}

fn mk_sender(oti: &flute::core::Oti, l: u64) -> Result<flute::sender::Sender, String> {
    mk_sender_cenc(oti, l, false).map(|x| x.0)
}

/// gzip-coded variant: returns the sender and the TRANSFER length (length of the encoded object) read from the ObjectDesc
fn mk_sender_cenc(oti: &flute::core::Oti, l: u64, gzip: bool) -> Result<(flute::sender::Sender, u64), String> {
    use flute::sender::*;
    let cfg = Config { toi_initial_value: Some(1), ..Default::default() };
    let ep = flute::core::UDPEndpoint::new(None, "224.0.0.1".to_string(), 3400);
    // the FDT travels under a plain No-Code default OTI (its length is not under our control: an unaligned or tiny FDT
    // block under Raptor/RS is C08's business, not C07's); the object carries the OTI under test as a per-object override
    let fdt_oti = flute::core::Oti::new_no_code(1400, 64);
    let mut sender = Sender::new(ep, 1, &fdt_oti, &cfg);
    let tc = if gzip {
        TransferConfig::builder().oti(oti.clone()).cenc(flute::core::lct::Cenc::Gzip).inband_cenc(true).build()
    } else {
        TransferConfig::builder().oti(oti.clone()).build()
    };
    let obj = ObjectDesc::create_from_buffer(
        content(l),
        "application/octet-stream",
        &url::Url::parse("file:///x").unwrap(),
        false,
        tc,
    )
    .map_err(|e| format!("{:?}", e))?;
    let tl = obj.transfer_length;
    sender.add_object(0, obj).map_err(|e| format!("{:?}", e))?;
    sender.publish(std::time::UNIX_EPOCH + std::time::Duration::from_secs(1_700_000_000)).map_err(|e| format!("{:?}", e))?;
    Ok((sender, tl))
}

/// transfer length of the gzip-coded synthetic object of `l` bytes (what the generator passes to the model as an input)
fn gzip_transfer_length(l: u64) -> u64 {
    use flute::sender::*;
    let tc = TransferConfig::builder().cenc(flute::core::lct::Cenc::Gzip).build();
    ObjectDesc::create_from_buffer(content(l), "application/octet-stream", &url::Url::parse("file:///x").unwrap(), false, tc)
        .map(|o| o.transfer_length)
        .unwrap_or(u64::MAX)
}

/// C07 (5a): the (SBN, number of source packets, bytes) structure of the packets a REAL sender emits for an
/// object of `l` bytes under No-Code (b, e); observation `ok k0:len0 k1:len1 ...` in SBN order.
fn sender_blocks(b: u64, l: u64, e: u64, o: &mut Oracle) -> String {
    let r = guarded(move || -> Result<Vec<(u64, u64, u64)>, String> {
        let oti = flute::core::Oti::new_no_code(e as u16, b as u16);
        let mut sender = mk_sender(&oti, l)?;
        let now = std::time::UNIX_EPOCH + std::time::Duration::from_secs(1_700_000_000);
        let mut blocks: Vec<(u64, u64, u64)> = Vec::new();
        let mut guard = 0;
        while let Some(data) = sender.read(now) {
            guard += 1;
            if guard > 1_000_000 {
                return Err("too many packets".into());
            }
            let pkt = flute::core::alc::parse_alc_pkt(&data).map_err(|e| format!("{:?}", e))?;
            if pkt.lct.toi == 0 {
                continue;
            }
            let pid = flute::core::alc::parse_payload_id(&pkt, &oti).map_err(|e| format!("{:?}", e))?;
            let len = (data.len() - pkt.data_payload_offset) as u64;
            if l == 0 {
                continue; // the lone empty-object packet carries no symbol
            }
            let sbn = pid.sbn as usize;
            while blocks.len() <= sbn {
                blocks.push((0, 0, 0));
            }
            blocks[sbn].0 += 1;
            blocks[sbn].1 += len;
            // position-sensitive checksum of the payload bytes: sum of byte values (content is byte i = (7i+3) mod 256)
            blocks[sbn].2 += data[pkt.data_payload_offset..].iter().map(|x| *x as u64).sum::<u64>();
        }
        Ok(blocks)
    });
    match r {
        Ok(Ok(bl)) => {
            // oracle: RFC 5052 structure
            let (al, asm, i, n) = rfc(b as u128, l as u128, e as u128);
            let mut ok = bl.len() as u128 == n;
            let mut first: u128 = 0;
            for (s, (k, len, sum)) in bl.iter().enumerate() {
                let kk = if (s as u128) < i { al } else { asm };
                let lo = (first * e as u128).min(l as u128);
                let hi = ((first + kk) * e as u128).min(l as u128);
                let wsum: u64 = (lo as u64..hi as u64).map(|i| ((i * 7 + 3) as u8) as u64).sum();
                if *k as u128 != kk || *len as u128 != hi - lo || *sum != wsum {
                    ok = false;
                }
                first += kk;
            }
            if !ok {
                o.fail("snd-ne-rfc", &format!("sender blocks {:?} differ from the RFC 5052 partition {:?}", bl, (al, asm, i, n)));
            }
            let mut s = "ok".to_string();
            for (k, len, sum) in bl {
                s.push_str(&format!(" {}:{}:{}", k, len, sum));
            }
            s
        }
        Ok(Err(e)) => format!("ERR {}", e.chars().take(200).collect::<String>().replace(' ', "_")),
        Err(loc) => {
            o.fail("snd-panic", &format!("sender panics at {}", loc));
            "PANIC".to_string()
        }
    }
}

/// C07 (6): B' reconstructed by the receiver-side FTI parser from the RaptorQ / Raptor in-band FTI that a REAL
/// sender emits; observation `ok <B'> <Z>`; oracle: partition(B', L, E) == partition(B, L, E).
fn raptor_reconstruct(rq: bool, b: u64, l: u64, e: u64, o: &mut Oracle) -> String {
    raptor_reconstruct_c(rq, b, l, e, None, o)
}

/// `tl = Some(transfer length)`: the object is gzip-coded; everything (partition, Z, B') is about the TRANSFER length
fn raptor_reconstruct_c(rq: bool, b: u64, l: u64, e: u64, tl: Option<u64>, o: &mut Oracle) -> String {
    let r = guarded(move || -> Result<(u64, u64), String> {
        let oti = if rq {
            flute::core::Oti::new_raptorq(e as u16, b as u16, 1, 1, 4)
        } else {
            flute::core::Oti::new_raptor(e as u16, b as u16, 1, 1, 4)
        }
        .map_err(|e| format!("{:?}", e))?;
        let (mut sender, real_tl) = mk_sender_cenc(&oti, l, tl.is_some())?;
        if let Some(t) = tl {
            if t != real_tl {
                return Err(format!("harness: transfer length {} announced to the model, ObjectDesc says {}", t, real_tl));
            }
        }
        let now = std::time::UNIX_EPOCH + std::time::Duration::from_secs(1_700_000_000);
        for _ in 0..100000 {
            let data = match sender.read(now) {
                Some(d) => d,
                None => break,
            };
            let pkt = flute::core::alc::parse_alc_pkt(&data).map_err(|e| format!("harness: own packet does not parse {:?}", e))?;
            if pkt.lct.toi == 0 {
                continue;
            }
            let poti = pkt.oti.as_ref().ok_or("harness: no in-band FTI")?;
            let dbg = format!("{:?}", poti.scheme_specific);
            let z: u64 = dbg
                .split("source_blocks_length: ")
                .nth(1)
                .and_then(|x| x.split(|c: char| !c.is_ascii_digit()).next())
                .and_then(|x| x.parse().ok())
                .ok_or("harness: Debug scrape of source_blocks_length missed")?;
            return Ok((poti.maximum_source_block_length as u64, z));
        }
        Err("harness: no object packet".into())
    });
    match r {
        Ok(Ok((b2, z))) => {
            let lt = tl.unwrap_or(l);
            let want = rfc(b as u128, lt as u128, e as u128);
            let got = rfc(b2 as u128, lt as u128, e as u128);
            if want != got || z as u128 != want.3 {
                o.fail("raptor-reconstruct", &format!("B'={} Z={} gives partition {:?}, sender's is {:?}", b2, z, got, want));
            }
            format!("ok {} {}", b2, z)
        }
        // the sender refuses the object (more source blocks than the Z field can carry, block above K_max, a Raptor
        // block of 2 or 3 symbols, ...): the admission model decides which shapes; the error TEXT is not compared
        Ok(Err(e)) if e.starts_with("harness:") => format!("ERR {}", e.replace(' ', "_")),
        Ok(Err(_)) => "ERR".to_string(),
        Err(_) => "PANIC".to_string(),
    }
}

fn one(ctx: &mut Ctx, eng: &mut dyn Engine, b: u64, l: u64, e: u64, all_blocks: bool) {
    let obs = ctx.step(eng, &format!("part bp {} {} {}", b, l, e));
    ctx.evaluations += 1;
    let q: Vec<u64> = obs.split(' ').skip(1).filter_map(|x| x.parse().ok()).collect();
    if q.len() != 4 {
        return;
    }
    if q[3] >= 2 && q[0] != q[1] {
        ctx.nontrivial(&format!("{} {} {}", b, l, e));
    }
    ctx.count(if q[3] == 0 {
        "N=0"
    } else if q[3] == 1 {
        "N=1"
    } else if q[0] == q[1] {
        "N>=2,equal"
    } else {
        "N>=2,unequal"
    });
    let n = q[3];
    let mut sbns: Vec<u64> = Vec::new();
    let full = all_blocks && n <= 70;
    if full {
        sbns.extend(0..n);
    } else if n > 0 {
        for s in [0, 1, q[2].saturating_sub(1), q[2], q[2] + 1, n.saturating_sub(2), n - 1] {
            if s < n && s <= u32::MAX as u64 && !sbns.contains(&s) {
                sbns.push(s);
            }
        }
    }
    let mut sum: u128 = 0;
    let mut ok = true;
    for s in sbns {
        let obs = ctx.step(eng, &format!("part bl {} {} {} {} {} {}", q[0], q[1], q[2], l, e, s));
        match obs.strip_prefix("ok ").and_then(|x| x.parse::<u128>().ok()) {
            Some(v) => sum += v,
            None => ok = false,
        }
    }
    if full && ok && n > 0 && sum != l as u128 {
        ctx.oracle_fail("bl-sum", &format!("sum of block lengths {} != L {} (b={},e={})", sum, l, b, e));
    }
}

pub fn run(ctx: &mut Ctx, eng: &mut dyn Engine) {
    let (bmax, emax, lmax) = if ctx.tier_thorough { (64, 24, 4000) } else { (16, 8, 800) };
    ctx.rule = format!(
        "exhaustive (B,E,L) with B<={},E<={},L<={} (incl. 0) plus boundary and seeded random triples up to B<2^32,E<=65535,L<2^48; \
         each triple: block_partitioning and block_length of every block (N<=70) or boundary blocks, real code vs Lean model, \
         oracle = RFC 5052 formulas in u128; non-trivial = N>=2 and A_large != A_small, distinct by (B,L,E)",
        bmax, emax, lmax
    );
    ctx.case("exhaustive");
    for b in 0..=bmax {
        for e in 0..=emax {
            for l in 0..=lmax {
                // full per-block check on a sub-grid to keep the line count reasonable
                let all = if ctx.tier_thorough { l % 7 == 0 || l < 200 } else { l % 5 == 0 || l < 100 };
                one(ctx, eng, b, l, e, all);
            }
        }
    }
    ctx.exhaustive = true;
    ctx.case("boundary");
    let bs: [u64; 12] = [1, 2, 3, 63, 64, 255, 256, 8192, 56403, 65535, (1 << 32) - 2, (1 << 32) - 1];
    let es: [u64; 10] = [1, 2, 3, 4, 16, 1024, 1400, 1428, 65534, 65535];
    let ls: [u64; 16] = [
        0, 1, 2, 1399, 1400, 1401, 65535, 65536, 100000, (1 << 32) - 1, 1 << 32, (1 << 32) + 1,
        (1 << 40) - 1, 1 << 40, (1 << 48) - 2, (1 << 48) - 1,
    ];
    for b in bs {
        for e in es {
            for l in ls {
                one(ctx, eng, b, l, e, false);
            }
        }
    }
    ctx.case("random");
    let mut rng = Rng::new(ctx.seed);
    let n = if ctx.tier_thorough { 400_000 } else { 40_000 };
    for i in 0..n {
        let b = 1 + rng.bits(32) as u64 % ((1 << 32) - 1);
        let e = 1 + rng.bits(16) as u64 % 65535;
        let l = rng.bits(48) as u64;
        one(ctx, eng, b, l, e, true);
        if i < 3 {
            ctx.sample(format!("part bp {} {} {}", b, l, e));
        }
    }
    ctx.sample("part bp 3 23 4 -> ok 3 3 0 2 ; part bl 3 3 0 23 4 1 -> ok 11".to_string());
    // hostile block_length calls (what an attacker-chosen SBN / inconsistent quadruple would reach if callers did not
    // guard): op `blh` compares PANIC / no-PANIC only - the VALUE returned for an input that is no partition of anything is
    // unspecified (a rewrite with saturating arithmetic may clip where today's code wraps), and ./check accepts
    // "model PANIC, code value" (model more pessimistic) for this op
    ctx.case("hostile-bl");
    let nh = if ctx.tier_thorough { 60_000 } else { 6_000 };
    for i in 0..nh {
        let b = 1 + rng.below(40);
        let e = 1 + rng.below(20);
        let l = rng.below(3000);
        let q = rfc(b as u128, l as u128, e as u128);
        let (al, asm, nl, n) = (q.0 as u64, q.1 as u64, q.2 as u64, q.3 as u64);
        let op = match rng.below(4) {
            0 => format!("part blh {} {} {} {} {} {}", al, asm, nl, l, e, n + rng.below(3)),
            1 => format!("part blh {} {} {} {} {} {}", al, asm, nl, l, e, *rng.pick(&[u32::MAX as u64, u32::MAX as u64 - 1, 65536, 1 << 31])),
            2 => format!("part blh {} {} {} {} {} {}", rng.below(50), rng.below(50), rng.below(20), l, e, rng.below(30)),
            _ => format!("part blh {} {} {} {} {} {}", rng.bits(40) as u64, rng.bits(40) as u64, rng.bits(33) as u64, rng.bits(48) as u64, 1 + rng.bits(16) as u64 % 65535, rng.bits(32) as u64),
        };
        let obs = ctx.step(eng, &op);
        ctx.evaluations += 1;
        ctx.count(if obs == "PANIC" { "hostile-bl-panic" } else { "hostile-bl-ok" });
        if obs == "PANIC" {
            ctx.nontrivial(&op);
        }
        if i < 2 {
            ctx.sample(format!("{} -> {}", op, obs));
        }
    }
    // RaptorQ / Raptor FTI round trip: B' reconstructed by the real parser, whole field ranges, Z = N(B,L,E) and arbitrary Z
    ctx.case("fti");
    let nf = if ctx.tier_thorough { 200_000 } else { 20_000 };
    for i in 0..nf {
        let rq = rng.bool();
        let e = match rng.below(4) {
            0 => *rng.pick(&[1u64, 2, 4, 1400, 1428, 65535]),
            _ => 1 + rng.bits(16) as u64 % 65535,
        };
        let l = if rq { 1 + rng.bits(40) as u64 % ((1u64 << 40) - 1) } else { 1 + rng.bits(48) as u64 % ((1u64 << 48) - 1) };
        let zmax: u64 = if rq { 255 } else { 65535 };
        let z = match rng.below(3) {
            0 => 1 + rng.below(zmax),
            1 => *rng.pick(&[1u64, 2, 46, 47, 255]),
            _ => {
                // Z = N(B, L, E) for a random B, when it fits the field
                let b = 1 + rng.bits(20) as u64;
                let n = rfc(b as u128, l as u128, e as u128).3;
                if n == 0 || n > zmax as u128 { 1 + rng.below(zmax) } else { n as u64 }
            }
        };
        let obs = ctx.step(eng, &format!("part fti {} {} {} {}", if rq { 6 } else { 1 }, l, e, z));
        ctx.evaluations += 1;
        if z > 1 {
            ctx.nontrivial(&format!("fti {} {} {} {}", rq, l, e, z));
        }
        ctx.count(if rq { "fti-raptorq" } else { "fti-raptor" });
        if i < 2 {
            ctx.sample(format!("part fti {} {} {} {} -> {}", if rq { 6 } else { 1 }, l, e, z, obs));
        }
    }
    // real sender: block structure of emitted packets (No-Code) and RaptorQ/Raptor B reconstruction
    ctx.case("sender");
    let ns = if ctx.tier_thorough { 3000 } else { 300 };
    for i in 0..ns {
        let e = *rng.pick(&[1u64, 2, 3, 4, 5, 7, 16, 100]);
        let b = *rng.pick(&[1u64, 2, 3, 4, 5, 7, 8, 16, 64]);
        let t = match rng.below(4) {
            0 => rng.range(0, 12),
            1 => rng.range(1, 3 * b + 2),
            _ => rng.range(1, 400),
        };
        let l = match rng.below(3) {
            0 => t * e,
            1 => (t * e).saturating_sub(rng.below(e)),
            _ => t * e + rng.below(e),
        };
        let obs = ctx.step(eng, &format!("part snd {} {} {}", b, l, e));
        ctx.evaluations += 1;
        if obs.matches(':').count() >= 2 {
            ctx.nontrivial(&format!("snd {} {} {}", b, l, e));
        }
        ctx.count("sender-blocks");
        if i < 2 {
            ctx.sample(format!("part snd {} {} {} -> {}", b, l, e, obs));
        }
    }
    // RS under-specified: source block lengths on the wire
    for i in 0..ns {
        let e = *rng.pick(&[1u64, 2, 3, 4, 5, 16]);
        let b = *rng.pick(&[1u64, 2, 3, 4, 5, 7, 8, 16, 40]);
        let t = rng.range(1, 10 * b);
        let l = (t * e).saturating_sub(rng.below(e)).max(1);
        let obs = ctx.step(eng, &format!("part sbl {} {} {}", b, l, e));
        ctx.evaluations += 1;
        if obs.split(' ').count() >= 3 {
            ctx.nontrivial(&format!("sbl {} {} {}", b, l, e));
        }
        ctx.count("wire-sbl-rs-underspecified");
        if i < 2 {
            ctx.sample(format!("part sbl {} {} {} -> {}", b, l, e, obs));
        }
    }
    // real sender -> real receiver: the receiver-side partition (all schemes, in-band and FDT-borne OTI)
    for i in 0..ns {
        let scheme = rng.below(5);
        let inband = rng.bool();
        let (e, b) = if scheme >= 3 {
            (*rng.pick(&[4u64, 8, 16]), rng.range(4, 20))
        } else {
            (*rng.pick(&[1u64, 2, 3, 4, 5, 16]), *rng.pick(&[1u64, 2, 3, 4, 5, 7, 8, 16]))
        };
        let t = match rng.below(3) {
            0 => rng.range(1, 3 * b + 2),
            _ => rng.range(1, 12 * b),
        };
        let l = match rng.below(3) {
            0 => t * e,
            _ => (t * e).saturating_sub(rng.below(e)).max(1),
        };
        let q = rfc(b as u128, l as u128, e as u128);
        // Raptor/RaptorQ codec libraries need k >= 4 symbols per block and aligned last symbols (owned by C08)
        // (Raptor cuts an unaligned last block into semi-equal symbols - known finding of C08; RaptorQ pads)
        if scheme >= 3 && (q.1 < 4 || q.3 > 255 || (scheme == 4 && l % e != 0)) {
            continue;
        }
        if scheme == 1 && b + 2 > 255 {
            continue;
        }
        if (scheme == 1 || scheme == 3) && q.3 > 255 {
            continue;
        }
        let obs = ctx.step(eng, &format!("part rcv {} {} {} {} {}", scheme, inband as u8, b, l, e));
        ctx.evaluations += 1;
        if q.3 >= 2 {
            ctx.nontrivial(&format!("rcv {} {} {} {} {}", scheme, inband, b, l, e));
        }
        ctx.count(&format!("receiver-blocks scheme={} {}", scheme, if inband { "inband-fti" } else { "fdt-oti" }));
        if i < 2 {
            ctx.sample(format!("part rcv {} {} {} {} {} -> {}", scheme, inband as u8, b, l, e, obs));
        }
    }
    // number of source blocks at the boundary of the Z field (RaptorQ: 8 bits; Raptor: 16 bits): N = 254..258 must be
    // announced exactly or the object refused - never a wrapped Z
    for rq in [true, false] {
        let lim: u64 = if rq { 255 } else { 65535 };
        for n in [lim - 1, lim, lim + 1, lim + 2] {
            for (b, e) in [(4u64, 4u64), (5, 4)] {
                if !rq && n > 300 && b != 4 {
                    continue;
                }
                let l = n * b * e;
                let obs = ctx.step(eng, &format!("part {} {} {} {}", if rq { "rq" } else { "rp" }, b, l, e));
                ctx.evaluations += 1;
                ctx.nontrivial(&format!("zfield {} {} {} {}", rq, b, l, e));
                ctx.count(if obs.starts_with("ok") { "z-field-boundary-ok" } else { "z-field-boundary-refused" });
            }
        }
    }
    // content-encoded objects (gzip): the partition, Z and B' are about the TRANSFER length (length of the encoded object),
    // not the content length - the synthetic content is periodic, so the two differ by orders of magnitude
    for rq in [true, false] {
        for (b, e) in [(4u64, 4u64), (8, 16), (64, 64), (10, 100)] {
            for l in [1u64, 50, 300, 1000, 5000, 20000, 60000] {
                let tl = gzip_transfer_length(l);
                let obs = ctx.step(eng, &format!("part {} {} {} {} {}", if rq { "rqc" } else { "rpc" }, b, l, e, tl));
                ctx.evaluations += 1;
                let (qc, qt) = (rfc(b as u128, l as u128, e as u128), rfc(b as u128, tl as u128, e as u128));
                if qc.3 != qt.3 {
                    ctx.nontrivial(&format!("raptor-cenc {} {} {} {}", rq, b, l, e));
                }
                ctx.count(if !obs.starts_with("ok") { "raptor-cenc-refused" } else if qc.3 != qt.3 { "raptor-cenc-ok-Z-differs-from-content-Z" } else { "raptor-cenc-ok" });
            }
        }
    }
    // small blocks, exhaustively: B = 1..5, E = 4, every L up to six full blocks - blocks of 1, 2 and 3 source symbols
    // (Raptor refuses objects with a block of 2 or 3 symbols, takes 1 and >= 4; RaptorQ takes all)
    for rq in [true, false] {
        for b in 1u64..=5 {
            let e = 4u64;
            for l in 1..=6 * b * e {
                let obs = ctx.step(eng, &format!("part {} {} {} {}", if rq { "rq" } else { "rp" }, b, l, e));
                ctx.evaluations += 1;
                let q = rfc(b as u128, l as u128, e as u128);
                if q.3 >= 2 {
                    ctx.nontrivial(&format!("raptor-small {} {} {} {}", rq, b, l, e));
                }
                ctx.count(if obs.starts_with("ok") { "raptor-small-block-ok" } else { "raptor-small-block-refused" });
            }
        }
    }
    for i in 0..ns {
        let rq = rng.bool();
        let e = *rng.pick(&[4u64, 8, 16, 64]);
        let b = rng.range(4, 64);
        let l = match rng.below(3) {
            0 => (rng.range(1, 12) * b * e).min(60_000 / (b * e) * (b * e)).max(b * e), // exact multiples of one full block
            _ => rng.range(1, 40 * b * e).min(60_000),
        };
        // Z <= 255 keeps the case cheap; blocks of 1, 2, 3 symbols are included: Raptor refuses 2 and 3 (admission
        // model, /repo "fix: add_object refuses Raptor blocks of 2 or 3 symbols"), RaptorQ takes them
        let q = rfc(b as u128, l as u128, e as u128);
        if q.3 > 255 {
            continue;
        }
        let obs = ctx.step(eng, &format!("part {} {} {} {}", if rq { "rq" } else { "rp" }, b, l, e));
        ctx.evaluations += 1;
        if q.3 >= 2 {
            ctx.nontrivial(&format!("raptor {} {} {} {}", rq, b, l, e));
        }
        ctx.count(if obs.starts_with("ok") { "raptor-reconstruct-ok" } else { "raptor-reconstruct-skip/err" });
        if i < 2 {
            ctx.sample(format!("part {} {} {} {} -> {}", if rq { "rq" } else { "rp" }, b, l, e, obs));
        }
    }
}

fn main() {
    harness_core::engine_main("part", || Box::new(PartEngine), run);
}
