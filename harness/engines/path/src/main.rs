//! C05: the filesystem object writer never touches anything outside its destination directory.
//!
//! Every operation runs the REAL `ObjectWriterFSBuilder` / `ObjectWriterFS` against a fresh sandbox
//!     <root> = /l1/l2/l3/sandbox-<n>
//!     <root>/{top.txt, outer/{canary.txt, sub/deep.txt}, dest/{old.txt, sub/in.txt}}
//! either directly (`run`: new_object_writer, open, write, complete|error|interrupted - the protocol of
//! objectreceiver.rs) or through a full FLUTE session (`sess`: real Sender -> real Receiver).
//! The operations are executed by WORKER PROCESSES that chroot(2) into an empty jail directory
//! /verif/work/path-<pid>-<k>/jail-<w> created at run time, so "/" above is the jail: a location that escapes
//! (D9: `//abs`, `../../..`) can reach nothing of the machine, and the WHOLE visible filesystem is snapshotted
//! before, after `open` and at the end - every effect of the writer is observed, wherever it lands.
//!
//!   op : path run|sess <root> <destform> <loc-hex> <ans> <outcome>
//!   obs: ok <diff after open> ; <diff at the end>   |   ERR <diff>
//! Oracle (the property): every entry of every diff lies strictly below the destination directory (<root>/dest, or the empty
//! <root>/solo/deep/dest2 for the spellings `emptyrel` / `symdest`).  `sess` ops announce Content-MD5 with the check enabled:
//! classes C03:corrupt-file-kept (a corrupted data packet, yet a file is left) and C03:delivered-bytes-differ serve C03.
//! The diffs are SORTED SETS; inside dest they are compared exactly on purpose (the theorems of Props/C05.lean describe them,
//! see props.d/C05.json `note`).  `HARNESS-ERR ...` = trouble of the harness itself: never printed by the model, never an
//! oracle class.
use flute::core::UDPEndpoint;
use flute::receiver::writer::{
    ObjectCacheControl, ObjectMetadata, ObjectWriter, ObjectWriterBuilder, ObjectWriterBuilderResult,
    ObjectWriterFSBuilder,
};
use harness_core::{guarded, hex, Ctx, Engine, Oracle, Rng};
use std::cell::RefCell;
use std::collections::BTreeMap;
use std::os::unix::ffi::OsStrExt;
use std::path::{Component, Path, PathBuf};
use std::rc::Rc;
use std::time::SystemTime;

const WORK: &str = "/verif/work/";
const ROOT_PREFIX: &str = "/l1/l2/l3/sandbox-";
const NAME: &str = "vq7n";
const PAYLOAD_BYTE: u8 = 0xAB;

#[derive(Clone, PartialEq, Eq, Debug)]
enum Node {
    Dir,
    /// (length, mtime in ns): a create / truncate / write changes at least one of them
    File(u64, i128),
    Other,
}

type Snap = BTreeMap<Vec<u8>, Node>;

fn node_of(p: &Path) -> Option<Node> {
    let md = std::fs::symlink_metadata(p).ok()?;
    if md.file_type().is_dir() {
        Some(Node::Dir)
    } else if md.file_type().is_file() {
        use std::os::unix::fs::MetadataExt;
        Some(Node::File(md.len(), md.mtime() as i128 * 1_000_000_000 + md.mtime_nsec() as i128))
    } else {
        Some(Node::Other)
    }
}

fn snap_tree(p: &Path, out: &mut Snap) {
    let Some(n) = node_of(p) else { return };
    let is_dir = n == Node::Dir;
    out.insert(p.as_os_str().as_bytes().to_vec(), n);
    if is_dir {
        if let Ok(rd) = std::fs::read_dir(p) {
            for e in rd.flatten() {
                snap_tree(&e.path(), out);
            }
        }
    }
}

/// the whole filesystem visible to the (chrooted) worker
fn snap_all() -> Snap {
    let mut s = Snap::new();
    snap_tree(Path::new("/"), &mut s);
    s
}

/// (kind, absolute path) entries; kind in +d +f ~f -f -d ?x
fn diff(a: &Snap, b: &Snap) -> Vec<(&'static str, Vec<u8>)> {
    let mut out = Vec::new();
    for (p, n) in b {
        match (a.get(p), n) {
            (None, Node::Dir) => out.push(("+d", p.clone())),
            (None, Node::File(..)) => out.push(("+f", p.clone())),
            (None, Node::Other) => out.push(("?x", p.clone())),
            (Some(o), n) if o != n => match (o, n) {
                (Node::File(..), Node::File(..)) => out.push(("~f", p.clone())),
                _ => out.push(("?x", p.clone())),
            },
            _ => {}
        }
    }
    for (p, n) in a {
        if !b.contains_key(p) {
            out.push((if *n == Node::Dir { "-d" } else { "-f" }, p.clone()));
        }
    }
    out
}

fn plain(b: u8) -> bool {
    b.is_ascii_alphanumeric() || b == b'.' || b == b'_' || b == b'-'
}

fn esc_seg(s: &[u8]) -> String {
    let mut o = String::new();
    for &b in s {
        if plain(b) {
            o.push(b as char);
        } else {
            o.push_str(&format!("%{:02X}", b));
        }
    }
    o
}

fn segs(p: &[u8]) -> Vec<&[u8]> {
    p.split(|b| *b == b'/').filter(|s| !s.is_empty()).collect()
}

/// path relative to the sandbox root when strictly below it, absolute otherwise
fn show_path(root: &[u8], p: &[u8]) -> String {
    let (r, q) = (segs(root), segs(p));
    if q.len() > r.len() && q[..r.len()] == r[..] {
        q[r.len()..].iter().map(|s| esc_seg(s)).collect::<Vec<_>>().join("/")
    } else {
        format!("/{}", q.iter().map(|s| esc_seg(s)).collect::<Vec<_>>().join("/"))
    }
}

fn show_diff(root: &[u8], d: &[(&'static str, Vec<u8>)]) -> String {
    let mut es: Vec<String> = d.iter().map(|(k, p)| format!("{}:{}", k, show_path(root, p))).collect();
    es.sort();
    if es.is_empty() {
        "-".to_string()
    } else {
        es.join(" ")
    }
}

fn unhex(s: &str) -> Option<Vec<u8>> {
    if s == "-" {
        return Some(vec![]);
    }
    if s.len() % 2 != 0 {
        return None;
    }
    (0..s.len() / 2).map(|i| u8::from_str_radix(s.get(2 * i..2 * i + 2)?, 16).ok()).collect()
}

/// the real `url` crate's answer, in the vocabulary of the match in ObjectWriterFS::open
fn url_ans(loc: &str) -> String {
    match url::Url::parse(loc) {
        Ok(u) => format!("ok:{}", hex(u.path().as_bytes())),
        Err(url::ParseError::RelativeUrlWithoutBase) => "rwb".to_string(),
        Err(url::ParseError::RelativeUrlWithCannotBeABaseBase) => "rcb".to_string(),
        Err(_) => "other".to_string(),
    }
}

fn root_ok(root: &str) -> bool {
    root.strip_prefix(ROOT_PREFIX).map(|n| !n.is_empty() && n.bytes().all(|b| b.is_ascii_digit())).unwrap_or(false)
}

/// infrastructure trouble of the harness itself (disk full, too many open files, the FDT byte patch does not find its
/// placeholder ...): a LOUD token the model never prints, and never an oracle failure of the property
/// the destination directory of a dest spelling, relative to the sandbox root
fn dest_prefix(form: &str) -> &'static str {
    match form {
        "emptyrel" | "symdest" => "solo/deep/dest2/",
        _ => "dest/",
    }
}

fn harness_err(what: &str) -> String {
    format!("HARNESS-ERR {}", what.replace(['\n', '\t'], " "))
}

fn make_sandbox(root: &Path) -> std::io::Result<()> {
    std::fs::remove_dir_all(root).ok();
    std::fs::create_dir_all(root.join("outer/sub"))?;
    std::fs::create_dir_all(root.join("dest/sub"))?;
    // an empty destination directory below two otherwise empty ancestors, and a symbolic link to it
    std::fs::create_dir_all(root.join("solo/deep/dest2"))?;
    std::os::unix::fs::symlink("solo/deep/dest2", root.join("link"))?;
    std::fs::write(root.join("top.txt"), b"canary top")?;
    std::fs::write(root.join("outer/canary.txt"), b"canary outer")?;
    std::fs::write(root.join("outer/sub/deep.txt"), b"canary deep")?;
    std::fs::write(root.join("dest/old.txt"), b"old content")?;
    std::fs::write(root.join("dest/sub/in.txt"), b"old inner")?;
    Ok(())
}

#[derive(Default)]
struct ProbeState {
    seen_loc: Vec<String>,
    open_ok: Option<bool>,
    after_open: Option<Snap>,
    calls: Vec<&'static str>,
}

/// delegating builder: records the Content-Location the writer is given and snapshots right after `open`
struct ProbeBuilder {
    inner: ObjectWriterFSBuilder,
    st: Rc<RefCell<ProbeState>>,
}

struct ProbeWriter {
    inner: Box<dyn ObjectWriter>,
    st: Rc<RefCell<ProbeState>>,
}

impl ObjectWriterBuilder for ProbeBuilder {
    fn new_object_writer(
        &self,
        endpoint: &UDPEndpoint,
        tsi: &u64,
        toi: &u128,
        meta: &ObjectMetadata,
        now: SystemTime,
    ) -> ObjectWriterBuilderResult {
        self.st.borrow_mut().seen_loc.push(meta.content_location.clone());
        match self.inner.new_object_writer(endpoint, tsi, toi, meta, now) {
            ObjectWriterBuilderResult::StoreObject(w) => ObjectWriterBuilderResult::StoreObject(Box::new(ProbeWriter {
                inner: w,
                st: self.st.clone(),
            })),
            o => o,
        }
    }
    fn update_cache_control(&self, e: &UDPEndpoint, tsi: &u64, toi: &u128, meta: &ObjectMetadata, now: SystemTime) {
        self.inner.update_cache_control(e, tsi, toi, meta, now)
    }
    fn fdt_received(
        &self,
        e: &UDPEndpoint,
        tsi: &u64,
        xml: &str,
        expires: SystemTime,
        meta: &ObjectMetadata,
        d: std::time::Duration,
        now: SystemTime,
        ext: Option<SystemTime>,
    ) {
        self.inner.fdt_received(e, tsi, xml, expires, meta, d, now, ext)
    }
}

impl ObjectWriter for ProbeWriter {
    fn open(&self, now: SystemTime) -> flute::error::Result<()> {
        let r = self.inner.open(now);
        let mut st = self.st.borrow_mut();
        st.calls.push("open");
        st.open_ok = Some(r.is_ok());
        st.after_open = Some(snap_all());
        r
    }
    fn write(&self, sbn: u32, data: &[u8], now: SystemTime) -> flute::error::Result<()> {
        self.inner.write(sbn, data, now)
    }
    fn complete(&self, now: SystemTime) {
        self.st.borrow_mut().calls.push("complete");
        self.inner.complete(now)
    }
    fn error(&self, now: SystemTime) {
        self.st.borrow_mut().calls.push("error");
        self.inner.error(now)
    }
    fn interrupted(&self, now: SystemTime) {
        self.st.borrow_mut().calls.push("interrupted");
        self.inner.interrupted(now)
    }
    fn enable_md5_check(&self) -> bool {
        self.inner.enable_md5_check()
    }
}

fn find(h: &[u8], n: &[u8]) -> Option<usize> {
    if n.is_empty() || h.len() < n.len() {
        return None;
    }
    (0..=h.len() - n.len()).find(|&i| &h[i..i + n.len()] == n)
}

/// can `loc` be carried verbatim by an FDT produced by the real sender?
/// either it is a URL the `url` crate serialises unchanged, or it is patched over a same-length placeholder
fn session_deliverable(loc: &str) -> bool {
    if url::Url::parse(loc).map(|u| u.as_str() == loc).unwrap_or(false) {
        return !loc.bytes().any(|b| b < 0x21 || b == b'<' || b == b'&' || b == b'"' || b == b'\'' || b == b'>');
    }
    loc.len() >= 2 && !loc.bytes().any(|b| b < 0x21 || b == 0x7f || b == b'<' || b == b'&' || b == b'"' || b == b'\'' || b == b'>')
}

/// the datagrams of one real sender session delivering a 3000-byte object at `loc`
fn session_packets(loc: &str) -> Result<Vec<Vec<u8>>, String> {
    use flute::sender;
    let direct = url::Url::parse(loc).map(|u| u.as_str() == loc).unwrap_or(false);
    let carried = if direct { loc.to_string() } else { format!("q:{}", "z".repeat(loc.len() - 2)) };
    let u = url::Url::parse(&carried).map_err(|e| format!("placeholder: {e:?}"))?;
    if u.as_str() != carried {
        return Err("placeholder not stable".into());
    }
    let oti = flute::core::Oti::new_no_code(1400, 64);
    let endpoint = UDPEndpoint::new(None, "224.0.0.1".to_owned(), 5000);
    let mut s = sender::Sender::new(endpoint, 1, &oti, &sender::Config::default());
    let obj = sender::ObjectDesc::create_from_buffer(
        vec![PAYLOAD_BYTE; 3000],
        "application/octet-stream",
        &u,
        true,
        sender::TransferConfig::default(),
    )
    .map_err(|e| format!("{e:?}"))?;
    s.add_object(0, obj).map_err(|e| format!("{e:?}"))?;
    s.publish(SystemTime::now()).map_err(|e| format!("{e:?}"))?;
    let mut pkts = Vec::new();
    for _ in 0..10_000 {
        let now = SystemTime::now();
        match s.read(now) {
            Some(d) => pkts.push(d),
            None => {
                if s.get_objects_in_fdt().is_empty() {
                    break;
                }
            }
        }
    }
    if !direct {
        let needle = format!("Content-Location=\"{}\"", carried).into_bytes();
        let repl = format!("Content-Location=\"{}\"", loc).into_bytes();
        let mut hit = 0;
        for p in pkts.iter_mut() {
            while let Some(i) = find(p, &needle) {
                p[i..i + needle.len()].copy_from_slice(&repl);
                hit += 1;
            }
        }
        if hit == 0 {
            return Err("placeholder not found in one datagram".into());
        }
    }
    Ok(pkts)
}

fn is_data_pkt(p: &[u8]) -> bool {
    p.len() > 200 && p[p.len() - 100..].iter().all(|b| *b == PAYLOAD_BYTE)
}

// ------------------------------------------------------------------------------------------------------
// inside the jail (worker process)

thread_local! {
    /// the sandbox of the previous operation when that operation left the whole jail untouched
    static PRISTINE: RefCell<Option<PathBuf>> = RefCell::new(None);
}

fn wipe_jail() {
    if let Ok(rd) = std::fs::read_dir("/") {
        for e in rd.flatten() {
            let p = e.path();
            if std::fs::symlink_metadata(&p).map(|m| m.is_dir()).unwrap_or(false) {
                std::fs::remove_dir_all(&p).ok();
            } else {
                std::fs::remove_file(&p).ok();
            }
        }
    }
}

fn run_one(mode: &str, root_s: &str, form: &str, loc: &str, outcome: &str, o: &mut Oracle) -> String {
    let root = PathBuf::from(root_s);
    // a fresh sandbox: either built from scratch in an emptied jail, or - when the previous operation provably
    // changed nothing (its before/after snapshots of the whole jail were equal) - that sandbox renamed
    let reused = PRISTINE.with(|p| p.borrow_mut().take()).map(|prev| prev == root || std::fs::rename(&prev, &root).is_ok());
    if reused != Some(true) {
        wipe_jail();
        if let Err(e) = make_sandbox(&root) {
            return harness_err(&format!("sandbox: {}", e));
        }
    }
    let (cwd, dest): (Option<PathBuf>, PathBuf) = match form {
        "abs" => (None, root.join("dest")),
        "slash" => (None, PathBuf::from(format!("{}/dest/", root_s))),
        "dots" => (None, PathBuf::from(format!("{}/outer/../dest/.", root_s))),
        "rel" => (Some(root.clone()), PathBuf::from("dest")),
        "reldot" => (Some(root.join("outer")), PathBuf::from("../dest")),
        // dest spelled with nothing but dots (cwd = the dest directory, resp. a child of it)
        "dot" => (Some(root.join("dest")), PathBuf::from(".")),
        "dotdot" => (Some(root.join("dest/sub")), PathBuf::from("..")),
        "dotsdot" => (Some(root.join("dest")), PathBuf::from("./.")),
        "subup" => (Some(root.join("dest")), PathBuf::from("sub/..")),
        // the EMPTY destination solo/deep/dest2: relative spelling / spelled through the symlink <root>/link
        "emptyrel" => (Some(root.clone()), PathBuf::from("solo/deep/dest2")),
        "symdest" => (None, root.join("link")),
        _ => return "bad-op".to_string(),
    };
    if let Some(c) = &cwd {
        if let Err(e) = std::env::set_current_dir(c) {
            return harness_err(&format!("chdir: {}", e));
        }
    }
    let before = snap_all();
    let st = Rc::new(RefCell::new(ProbeState::default()));
    let res = drive(mode, &dest, loc, outcome, &st);
    let after = snap_all();
    std::env::set_current_dir("/").ok();
    let st = st.borrow();
    let untouched = before == after && st.after_open.as_ref().map(|s| *s == before).unwrap_or(true);
    PRISTINE.with(|p| *p.borrow_mut() = if untouched { Some(root.clone()) } else { None });
    let rootb = root_s.as_bytes();
    let d_end = diff(&before, &after);
    let d_open = st.after_open.as_ref().map(|s| diff(&before, s)).unwrap_or_default();
    // ---- oracle: the property itself -------------------------------------------------------------
    let mut reported: Vec<(&str, &Vec<u8>)> = Vec::new();
    for (k, p) in d_open.iter().chain(d_end.iter()) {
        let shown = show_path(rootb, p);
        if !shown.starts_with(dest_prefix(form)) && !reported.contains(&(*k, p)) {
            reported.push((*k, p));
            let class = match *k {
                "+d" => "escape-mkdir",
                "+f" => "escape-create",
                "~f" => "escape-truncate",
                "-f" | "-d" => "escape-remove",
                _ => "escape-other",
            };
            o.fail(class, &format!("location {:?} ({}, {}): {} {} is outside the destination directory", loc, mode, outcome, k, shown));
        }
    }
    // ---- C03 through the FILE-SYSTEM writer (sessions announce Content-MD5, the builder enables the check) ----------
    if mode == "sess" && res.is_ok() && st.open_ok == Some(true) {
        let written: Vec<&Vec<u8>> = d_end.iter().filter(|(k, _)| *k == "+f" || *k == "~f").map(|(_, p)| p).collect();
        if outcome == "error" {
            // one payload byte was flipped: the MD5 check must fail the object and the writer removes its file
            for p in &written {
                o.fail("C03:corrupt-file-kept", &format!("location {:?}: a data packet was corrupted (Content-MD5 announced, check enabled) but {} is left on disk", loc, show_path(rootb, p)));
            }
        } else if outcome == "complete" {
            for p in &written {
                let got = std::fs::read(PathBuf::from(std::ffi::OsStr::from_bytes(p))).unwrap_or_default();
                if got != vec![PAYLOAD_BYTE; 3000] {
                    o.fail("C03:delivered-bytes-differ", &format!("location {:?}: {} holds {} bytes that are not the object", loc, show_path(rootb, p), got.len()));
                }
            }
        }
    }
    match res {
        Err(e) => e,
        Ok(()) => {
            if mode == "sess" && st.seen_loc.iter().any(|l| l != loc) {
                // the model is run on the op's location string: the session must have handed exactly that string to the
                // writer (a receiver that normalised the URL would be C05-neutral, but then this op cannot be compared)
                return harness_err(&format!("nodelivery: writer saw {:?}", st.seen_loc));
            }
            match st.open_ok {
                None => harness_err(&format!("noopen: {:?}", st.calls)),
                Some(false) => {
                    // direct mode: open, error.  In a session the receiver forgets an object in error
                    // (max_objects_error = 0) and starts it again with the next packet: (open, error)+ ; which calls a
                    // receiver makes after a failed open is its policy (C09), only the direct mode pins the sequence
                    let pairs = st.calls.chunks(2).all(|c| c == ["open", "error"]);
                    if mode == "run" && (!pairs || st.calls.len() != 2) {
                        return harness_err(&format!("protocol: {:?}", st.calls));
                    }
                    format!("ERR {}", show_diff(rootb, &d_end))
                }
                Some(true) => {
                    let want: &[&str] = match outcome {
                        "complete" => &["open", "complete"],
                        "error" => &["open", "error"],
                        _ => &["open", "interrupted"],
                    };
                    // only the harness's own direct calls are pinned; in a session the end diff speaks for itself
                    if mode == "run" && st.calls != want {
                        return harness_err(&format!("protocol: {:?}", st.calls));
                    }
                    format!("ok {} ; {}", show_diff(rootb, &d_open), show_diff(rootb, &d_end))
                }
            }
        }
    }
}

fn drive(mode: &str, dest: &Path, loc: &str, outcome: &str, st: &Rc<RefCell<ProbeState>>) -> Result<(), String> {
    let inner = match ObjectWriterFSBuilder::new(dest, true) {
        Ok(b) => b,
        Err(_) => return Err("BUILDER-ERR".to_string()),
    };
    let builder = Rc::new(ProbeBuilder { inner, st: st.clone() });
    let now = SystemTime::now();
    let endpoint = UDPEndpoint::new(None, "224.0.0.1".to_owned(), 5000);
    if mode == "run" {
        // the calling protocol of ObjectReceiver::init_object_writer / write_blocks / complete / error
        let meta = ObjectMetadata {
            content_location: loc.to_string(),
            content_length: Some(16),
            transfer_length: Some(16),
            content_type: None,
            cache_control: ObjectCacheControl::NoCache,
            groups: None,
            md5: None,
            optel_propagator: None,
            oti: None,
            cenc: None,
            e_tag: None,
        };
        let w = match builder.new_object_writer(&endpoint, &1, &1, &meta, now) {
            ObjectWriterBuilderResult::StoreObject(w) => w,
            _ => return Err(harness_err("nowriter")),
        };
        if w.open(now).is_err() {
            w.error(now);
            return Ok(());
        }
        w.write(0, &[PAYLOAD_BYTE; 16], now).ok();
        match outcome {
            "complete" => w.complete(now),
            "error" => w.error(now),
            _ => w.interrupted(now),
        }
        drop(w);
        Ok(())
    } else {
        let mut pkts = session_packets(loc).map_err(|e| harness_err(&format!("nosession: {}", e)))?;
        let first_data = pkts.iter().position(|p| is_data_pkt(p)).ok_or_else(|| harness_err("nosession: no data packet"))?;
        match outcome {
            "complete" => {}
            "error" => {
                let n = pkts[first_data].len();
                pkts[first_data][n - 1] ^= 1; // MD5 mismatch at the end
            }
            _ => {
                pkts.remove(first_data); // incomplete when the close-object flag arrives
            }
        }
        let b: Rc<dyn ObjectWriterBuilder> = builder.clone();
        let mut r = flute::receiver::Receiver::new(&endpoint, 1, b, None);
        for p in &pkts {
            let now = SystemTime::now();
            r.push_data(p, now).ok();
            r.cleanup(now);
        }
        drop(r);
        Ok(())
    }
}

/// a history: several writers of ONE builder in one sandbox, calls in any order (tokens: see Drv/Path.lean)
fn run_seq(root_s: &str, form: &str, toks: &str, o: &mut Oracle) -> String {
    let root = PathBuf::from(root_s);
    PRISTINE.with(|p| *p.borrow_mut() = None);
    wipe_jail();
    if let Err(e) = make_sandbox(&root) {
        return harness_err(&format!("sandbox: {}", e));
    }
    let (cwd, dest): (Option<PathBuf>, PathBuf) = match form {
        "abs" => (None, root.join("dest")),
        "slash" => (None, PathBuf::from(format!("{}/dest/", root_s))),
        "dots" => (None, PathBuf::from(format!("{}/outer/../dest/.", root_s))),
        "rel" => (Some(root.clone()), PathBuf::from("dest")),
        "reldot" => (Some(root.join("outer")), PathBuf::from("../dest")),
        // dest spelled with nothing but dots (cwd = the dest directory, resp. a child of it)
        "dot" => (Some(root.join("dest")), PathBuf::from(".")),
        "dotdot" => (Some(root.join("dest/sub")), PathBuf::from("..")),
        "dotsdot" => (Some(root.join("dest")), PathBuf::from("./.")),
        "subup" => (Some(root.join("dest")), PathBuf::from("sub/..")),
        // the EMPTY destination solo/deep/dest2: relative spelling / spelled through the symlink <root>/link
        "emptyrel" => (Some(root.clone()), PathBuf::from("solo/deep/dest2")),
        "symdest" => (None, root.join("link")),
        _ => return "bad-op".to_string(),
    };
    if let Some(c) = &cwd {
        if let Err(e) = std::env::set_current_dir(c) {
            return harness_err(&format!("chdir: {}", e));
        }
    }
    let builder = match ObjectWriterFSBuilder::new(&dest, true) {
        Ok(b) => b,
        Err(_) => {
            std::env::set_current_dir("/").ok();
            return "BUILDER-ERR".to_string();
        }
    };
    let now = SystemTime::now();
    let endpoint = UDPEndpoint::new(None, "224.0.0.1".to_owned(), 5000);
    let rootb = root_s.as_bytes();
    let mut writers: Vec<Box<dyn ObjectWriter>> = Vec::new();
    let mut out: Vec<String> = Vec::new();
    let mut result: Option<String> = None;
    for tok in toks.split(',') {
        if let Some(rest) = tok.strip_prefix("n=") {
            let parts: Vec<&str> = rest.split('=').collect();
            let loc = if parts.len() == 2 { unhex(parts[0]).and_then(|b| String::from_utf8(b).ok()) } else { None };
            let Some(loc) = loc else {
                result = Some("bad-op".to_string());
                break;
            };
            if url_ans(&loc) != parts[1] {
                result = Some(format!("bad-ans real={}", url_ans(&loc)));
                break;
            }
            let meta = ObjectMetadata {
                content_location: loc,
                content_length: Some(0),
                transfer_length: Some(0),
                content_type: None,
                cache_control: ObjectCacheControl::NoCache,
                groups: None,
                md5: None,
                optel_propagator: None,
                oti: None,
                cenc: None,
                e_tag: None,
            };
            match builder.new_object_writer(&endpoint, &1, &(writers.len() as u128), &meta, now) {
                ObjectWriterBuilderResult::StoreObject(w) => writers.push(w),
                _ => {
                    result = Some(harness_err("nowriter"));
                    break;
                }
            }
            out.push("n".to_string());
            continue;
        }
        let (idx, call) = tok.split_at(tok.len().saturating_sub(1));
        let Some(w) = idx.parse::<usize>().ok().and_then(|i| writers.get(i)) else {
            result = Some("bad-op".to_string());
            break;
        };
        let before = snap_all();
        let tag = match call {
            "o" => {
                if w.open(now).is_ok() {
                    "ok"
                } else {
                    "ERR"
                }
            }
            "w" => {
                w.write(0, &[], now).ok();
                "-"
            }
            "c" => {
                w.complete(now);
                "-"
            }
            "e" => {
                w.error(now);
                "-"
            }
            "i" => {
                w.interrupted(now);
                "-"
            }
            _ => {
                result = Some("bad-op".to_string());
                break;
            }
        };
        let after = snap_all();
        let d = diff(&before, &after);
        for (k, p) in d.iter() {
            let shown = show_path(rootb, p);
            if !shown.starts_with(dest_prefix(form)) {
                let class = match *k {
                    "+d" => "escape-mkdir",
                    "+f" => "escape-create",
                    "~f" => "escape-truncate",
                    "-f" | "-d" => "escape-remove",
                    _ => "escape-other",
                };
                o.fail(class, &format!("history {}: call {} : {} {} is outside the destination directory", toks, tok, k, shown));
            }
        }
        // a file that is empty before and after shows no truncation in (length, mtime) reliably: only report
        // `~f` when the length changed (the model does the same, see Drv/Path.lean)
        let d: Vec<(&'static str, Vec<u8>)> = d
            .into_iter()
            .filter(|(k, p)| {
                *k != "~f" || match (before.get(p), after.get(p)) {
                    (Some(Node::File(a, _)), Some(Node::File(b, _))) => a != b,
                    _ => true,
                }
            })
            .collect();
        out.push(format!("{}[{}]", tag, show_diff(rootb, &d)));
    }
    drop(writers);
    std::env::set_current_dir("/").ok();
    result.unwrap_or_else(|| out.join(";"))
}

/// execute one op line (inside the jail): observation + oracle failures
fn exec_in_jail(op: &str) -> (String, Vec<(String, String)>) {
    let bad = |s: &str| (s.to_string(), Vec::new());
    let t: Vec<&str> = op.split(' ').collect();
    if t.len() == 5 && t[0] == "path" && t[1] == "seq" {
        if !root_ok(t[2]) {
            return bad("bad-op");
        }
        let (r, f, toks) = (t[2].to_string(), t[3].to_string(), t[4].to_string());
        let res = guarded(move || {
            let mut oo = Oracle::default();
            let s = run_seq(&r, &f, &toks, &mut oo);
            (s, oo.fails)
        });
        return match res {
            Ok(x) => x,
            Err(at) => {
                std::env::set_current_dir("/").ok();
                PRISTINE.with(|p| *p.borrow_mut() = None);
                ("PANIC".to_string(), vec![("writer-panic".to_string(), format!("panic at {} in history {}", at, t[4]))])
            }
        };
    }
    if t.len() != 7 || t[0] != "path" || !(t[1] == "run" || t[1] == "sess") {
        return bad("bad-op");
    }
    let (mode, root, form, outcome) = (t[1], t[2], t[3], t[6]);
    if !root_ok(root) || !["complete", "error", "interrupted"].contains(&outcome) {
        return bad("bad-op");
    }
    let Some(locb) = unhex(t[4]) else { return bad("bad-op") };
    let Ok(loc) = String::from_utf8(locb) else { return bad("bad-op") };
    if url_ans(&loc) != t[5] {
        return bad(&format!("bad-ans real={}", url_ans(&loc)));
    }
    let (m, r, f, oc, l) = (mode.to_string(), root.to_string(), form.to_string(), outcome.to_string(), loc.clone());
    let res = guarded(move || {
        let mut oo = Oracle::default();
        let s = run_one(&m, &r, &f, &l, &oc, &mut oo);
        (s, oo.fails)
    });
    match res {
        Ok(x) => x,
        Err(at) => {
            std::env::set_current_dir("/").ok();
            PRISTINE.with(|p| *p.borrow_mut() = None);
            (
                "PANIC".to_string(),
                vec![("writer-panic".to_string(), format!("panic at {} for location {:?}", at, loc))],
            )
        }
    }
}

/// `eng-path worker <jobs> <results> <jail>` : chroot into <jail>, execute every op line of <jobs>
fn worker_main(jobs: &str, results: &str, jail: &str) {
    use std::io::Write;
    harness_core::install_panic_hook();
    let ops = std::fs::read_to_string(jobs).expect("jobs file");
    let mut out = std::io::BufWriter::new(std::fs::File::create(results).expect("results file"));
    assert!(jail.starts_with(WORK) && jail.contains("/path-") && !jail.contains(".."), "jail must be below {}", WORK);
    std::fs::create_dir_all(jail).expect("jail dir");
    std::env::set_current_dir(jail).expect("chdir jail");
    std::os::unix::fs::chroot(".").expect("chroot (needs CAP_SYS_CHROOT)");
    std::env::set_current_dir("/").expect("chdir /");
    // the jail must be an empty world: refuse to run anywhere else
    assert!(std::fs::read_dir("/").map(|mut d| d.next().is_none()).unwrap_or(false), "jail is not empty");
    for op in ops.lines() {
        let (obs, fails) = exec_in_jail(op);
        let mut line = obs.replace(['\t', '\n'], " ");
        for (c, d) in fails {
            line.push('\t');
            line.push_str(&c.replace(['\t', '\n'], " "));
            line.push('\t');
            line.push_str(&d.replace(['\t', '\n'], " "));
        }
        writeln!(out, "{}", line).unwrap();
    }
    out.flush().unwrap();
}

// ------------------------------------------------------------------------------------------------------
// outside the jail: spawning workers

static BATCH: std::sync::atomic::AtomicUsize = std::sync::atomic::AtomicUsize::new(0);

/// run the op lines on `workers` jailed worker processes; results in order
fn execute_ops(ops: &[String], workers: usize) -> Vec<(String, Vec<(String, String)>)> {
    let k = BATCH.fetch_add(1, std::sync::atomic::Ordering::SeqCst);
    let base = format!("{}path-{}-{}", WORK, std::process::id(), k);
    std::fs::remove_dir_all(&base).ok();
    std::fs::create_dir_all(&base).unwrap();
    struct Cleanup(String);
    impl Drop for Cleanup {
        fn drop(&mut self) {
            std::fs::remove_dir_all(&self.0).ok();
        }
    }
    let _cleanup = Cleanup(base.clone()); // also when a spawn fails and we unwind
    let workers = workers.max(1).min(ops.len().max(1));
    let exe = std::env::current_exe().expect("current exe");
    let mut kids = Vec::new();
    for w in 0..workers {
        let mine: Vec<&str> = ops.iter().enumerate().filter(|(i, _)| i % workers == w).map(|(_, s)| s.as_str()).collect();
        let (jf, rf, jail) = (format!("{}/jobs-{}", base, w), format!("{}/res-{}", base, w), format!("{}/jail-{}", base, w));
        std::fs::write(&jf, mine.join("\n") + "\n").unwrap();
        let child = std::process::Command::new(&exe)
            .args(["worker", &jf, &rf, &jail])
            .stdin(std::process::Stdio::null())
            .stdout(std::process::Stdio::null()) // the writer println!s on `complete`
            .spawn()
            .expect("spawn worker");
        kids.push((w, child, rf, mine.len()));
    }
    let mut out: Vec<Option<(String, Vec<(String, String)>)>> = (0..ops.len()).map(|_| None).collect();
    for (w, mut child, rf, n) in kids {
        let status = child.wait().expect("wait worker");
        let text = std::fs::read_to_string(&rf).unwrap_or_default();
        let lines: Vec<&str> = text.lines().collect();
        for j in 0..n {
            let i = j * workers + w;
            out[i] = Some(match lines.get(j) {
                Some(l) => {
                    let f: Vec<&str> = l.split('\t').collect();
                    let fails = f[1..].chunks(2).filter(|c| c.len() == 2).map(|c| (c[0].to_string(), c[1].to_string())).collect();
                    (f[0].to_string(), fails)
                }
                None => {
                    // the worker died (OOM kill, spawn trouble under load): run this op once more in a worker of its own;
                    // a second death is an infrastructure failure of the run, not an observation of the writer
                    if workers == 1 && ops.len() == 1 {
                        eprintln!("path engine: worker died twice (exit {:?}) on op `{}`: infrastructure failure", status.code(), ops[i]);
                        std::process::exit(75);
                    }
                    execute_ops(&ops[i..i + 1], 1).pop().unwrap()
                }
            });
        }
    }
    std::fs::remove_dir_all(&base).ok();
    out.into_iter().map(|x| x.unwrap()).collect()
}

pub struct PathEngine;

impl Engine for PathEngine {
    fn reset(&mut self) {}
    /// replay mode: one jailed worker per op line
    fn exec(&mut self, op: &str, o: &mut Oracle) -> String {
        let (obs, fails) = execute_ops(&[op.to_string()], 1).pop().unwrap();
        for (c, d) in fails {
            o.fail(&c, &d);
        }
        obs
    }
}

// ------------------------------------------------------------------------------------------------------
// generator

const PREFIXES: [&str; 9] = ["file:///", "file://host/", "http://h/", "x:", "x:/", "x://h/", "", "/", "//"];

fn grammar_segments(root: &str) -> [String; 8] {
    [
        NAME.to_string(),
        ".".to_string(),
        "..".to_string(),
        "".to_string(),
        "%2e%2e".to_string(),
        "..%2f".to_string(),
        "a\\..\\b".to_string(),
        format!("{}/outer/vq7abs", root),
    ]
}

fn root_for(i: usize) -> String {
    format!("{}{}", ROOT_PREFIX, i)
}

struct Job {
    op: String,
    loc: String,
    bucket: String,
}

fn mk_job(mode: &str, root: &str, form: &str, loc: &str, outcome: &str, bucket: &str) -> Job {
    Job {
        op: format!("path {} {} {} {} {} {}", mode, root, form, hex(loc.as_bytes()), url_ans(loc), outcome),
        loc: loc.to_string(),
        bucket: bucket.to_string(),
    }
}

fn random_loc(rng: &mut Rng, root: &str, xml_safe: bool) -> String {
    const PRE: [&str; 30] = [
        "file:///", "file://host/", "http://h/", "x:", "x:/", "x://h/", "", "/", "//", "FILE:///", "file:", "file:/",
        "file://", "http://h:80/", "http://u@h/", "x:?", "x:#", "c:\\", "c:/", "\\\\h\\", "//h/", "///", "./", "../",
        "~/", "a:", "a:/", "http:", "https://h/x/", "ftp://h//",
    ];
    const NAMES: [&str; 9] = [NAME, "old.txt", "sub", "dest", "outer", "canary.txt", "in.txt", "top.txt", "vq7m"];
    const SPECIAL: [&str; 24] = [
        ".", "..", "", "...", "%2e", "%2E%2E", "%2f", "%5c", "\\", "..\\", "~", "*", "\u{e9}", "a:b", "?q", "#f", "@", ";p",
        "%00", "%", ".%2e", "%2e.", " ", "\t",
    ];
    const SEPS: [&str; 6] = ["/", "/", "/", "//", "\\", ":"];
    let mut s = String::new();
    s.push_str(*rng.pick(&PRE));
    let n = rng.range(0, 6);
    for i in 0..n {
        if i > 0 {
            s.push_str(*rng.pick(&SEPS));
        }
        match rng.below(10) {
            0..=3 => s.push_str(*rng.pick(&NAMES)),
            4..=7 => {
                let t = *rng.pick(&SPECIAL);
                if !(xml_safe && (t == " " || t == "\t")) {
                    s.push_str(t)
                }
            }
            8 => {
                let sub = *rng.pick(&["/outer/canary.txt", "/top.txt", "/dest/vq7m", "", "/outer/vq7abs", "/dest/../outer/vq7abs"]);
                s.push_str(root);
                s.push_str(sub);
            }
            _ => {
                // a short random printable string
                for _ in 0..rng.range(1, 4) {
                    let c = *rng.pick(&[b'a', b'.', b'/', b'\\', b'%', b'2', b'e', b'f', b':', b'-', b'_', b'~', b'+', b'=', b'!']);
                    s.push(c as char);
                }
            }
        }
    }
    s
}

fn execute(jobs: &[Job], workers: usize) -> Vec<(String, Vec<(String, String)>)> {
    let ops: Vec<String> = jobs.iter().map(|j| j.op.clone()).collect();
    execute_ops(&ops, workers)
}

/// deterministic pseudo-random number for the k-th history, j-th draw (independent of the main PRNG stream so that
/// adding this phase did not change the other phases' cases)
fn rng_hist(seed: u64, k: usize, j: usize) -> usize {
    let mut r = Rng::new(seed ^ ((k as u64) << 20) ^ (j as u64).wrapping_mul(0x9E37_79B9));
    r.next() as usize
}

fn escape_attempt(loc: &str) -> bool {
    let mut clps = vec![loc.to_string()];
    if let Ok(u) = url::Url::parse(loc) {
        clps.push(u.path().to_string());
    }
    clps.iter().any(|c| {
        let r = c.strip_prefix('/').unwrap_or(c);
        Path::new(r).components().any(|x| !matches!(x, Component::Normal(_))) || r.is_empty()
    })
}

fn record(ctx: &mut Ctx, jobs: &[Job], res: Vec<(String, Vec<(String, String)>)>) {
    for (j, (obs, fails)) in jobs.iter().zip(res.into_iter()) {
        ctx.op(&j.op, &obs);
        ctx.evaluations += 1;
        for (c, d) in fails {
            ctx.oracle_fail(&c, &format!("{} :: op `{}` -> `{}`", d, j.op, obs));
        }
        let kind = obs.split(' ').next().unwrap_or("?").to_string();
        let ans = j.op.split(' ').nth(5).unwrap_or("?").split(':').next().unwrap_or("?").to_string();
        ctx.count(&format!("{}:{}:{}", j.bucket, ans, kind));
        let has_effect = obs.contains(':');
        if has_effect || escape_attempt(&j.loc) {
            // distinct by (mode, dest spelling, location with the sandbox number removed, outcome)
            let t: Vec<&str> = j.op.split(' ').collect();
            let root = t[2];
            let key = format!("{} {} {} {}", t[1], t[3], j.loc.replace(root, "<root>"), t[6]);
            ctx.nontrivial(&key);
        }
    }
}

pub fn run(ctx: &mut Ctx, _eng: &mut dyn Engine) {
    let depth = if ctx.tier_thorough { 5 } else { 3 };
    let n_random = if ctx.tier_thorough { 60_000 } else { 4_000 };
    let n_sess = if ctx.tier_thorough { 2_000 } else { 240 };
    let workers = std::thread::available_parallelism().map(|n| n.get()).unwrap_or(4).min(16);
    ctx.rule = format!(
        "every Content-Location = prefix (9 kinds of the property text) + up to {} segments from the 8 kinds, enumerated exhaustively, x \
         {{complete, error, interrupted}} (depth 5: one of the three per location, in rotation), dest spelled abs|slash|dots in rotation; structured escape attempts (prefix x lead x 0..5 climbs of 4 spellings x 8 targets), once with dest spelled abs|slash|dots and once with dest spelled by dots only (. | .. | ./. | sub/.. relative to the dest directory or a child); {} seeded random strings over a larger token set; \
         histories (2 writers x 6 colliding/nested locations x every sequence of 3 (quick) / 4 (thorough) calls from {{open, complete, error}} on either writer, plus seeded longer histories with up to 3 writers, 20 locations, all five calls, any order; all eleven dest spellings (absolute, relative, dots only, an empty dest spelled relatively / through a symlink)); a relative-dest phase; {} full Sender->Receiver sessions; each against the real ObjectWriterFSBuilder in a \
         fresh sandbox, tree snapshot before / after open / at the end vs the Lean model's predicted effects; oracle = every effect strictly \
         below dest/; non-trivial = the op had a filesystem effect or the location has a non-Normal component after the strip \
         (distinct by mode, dest spelling, location, outcome)",
        depth, n_random, n_sess
    );
    let outcomes = ["complete", "error", "interrupted"];
    let forms = ["abs", "slash", "dots"];
    let mut idx = 0usize;

    // 1. the grammar of the property text, exhaustively
    ctx.case(&format!("grammar-depth-{}", depth));
    let mut jobs: Vec<Job> = Vec::new();
    for (pi, pre) in PREFIXES.iter().enumerate() {
        for d in 0..=depth {
            let total = 8usize.pow(d as u32);
            for code in 0..total {
                // all three outcomes up to depth 4; at depth 5 (thorough) one outcome per location, in rotation
                let ocs: &[&str] = if d <= 4 { &outcomes[..] } else { &outcomes[code % 3..code % 3 + 1] };
                for oc in ocs.iter() {
                    let root = root_for(idx);
                    let kinds = grammar_segments(&root);
                    let mut c = code;
                    let mut parts: Vec<&str> = Vec::new();
                    for _ in 0..d {
                        parts.push(&kinds[c % 8]);
                        c /= 8;
                    }
                    let loc = format!("{}{}", pre, parts.join("/"));
                    let form = forms[(code + d + pi) % 3];
                    jobs.push(mk_job("run", &root, form, &loc, oc, &format!("grammar:p{}", pi)));
                    idx += 1;
                }
            }
        }
    }
    let res = execute(&jobs, workers);
    if let Some(j) = jobs.get(30) {
        ctx.sample(format!("{} -> {}", j.op, res[30].0));
    }
    for (k, j) in jobs.iter().enumerate() {
        if j.loc == "x:../vq7n" || j.loc == "//vq7n/.." || j.loc == "file:///vq7n/vq7n" {
            ctx.sample(format!("{} [{}] -> {}", j.op, j.loc, res[k].0));
        }
    }
    record(ctx, &jobs, res);
    ctx.exhaustive = true;

    // 1b. structured escape attempts: <prefix> <lead of plain names> <k climbs> <target> (targets in rotation)
    ctx.case("attacks");
    let mut jobs: Vec<Job> = Vec::new();
    let leads = ["", "vq7n/", "sub/", "vq7n/sub/", "./", "sub/./", "old.txt/", "vq7n//"];
    let climbs = ["..", "%2e%2e", ".%2E", "..\\"];
    let mut k = 0usize;
    for pre in PREFIXES.iter() {
        for lead in leads.iter() {
            for ups in 0..=5usize {
                for climb in climbs.iter() {
                    if ups == 0 && *climb != ".." {
                        continue;
                    }
                    let root = root_for(idx);
                    let targets = [
                        "vq7n".to_string(),
                        "outer/canary.txt".to_string(),
                        "top.txt".to_string(),
                        "dest/old.txt".to_string(),
                        "dest/sub/vq7n".to_string(),
                        format!("{}/outer/canary.txt", root),
                        format!("{}/top.txt", &root[1..]),
                        "".to_string(),
                    ];
                    let target = &targets[k % targets.len()];
                    let mut loc = format!("{}{}", pre, lead);
                    for _ in 0..ups {
                        loc.push_str(climb);
                        loc.push('/');
                    }
                    loc.push_str(target);
                    jobs.push(mk_job("run", &root, forms[k % 3], &loc, outcomes[(k / 3) % 3], "attack"));
                    idx += 1;
                    k += 1;
                }
            }
        }
    }
    let res = execute(&jobs, workers);
    record(ctx, &jobs, res);

    // 1b'. the same escape attempts with dest spelled by DOTS ONLY ( . | .. | ./. | sub/.. , cwd = the dest directory or a
    //      child of it): a check by lexical normalisation + starts_with(dest) degenerates there (normalised dest = "")
    ctx.case("attacks-dot-dest");
    let dot_forms = ["dot", "dotdot", "dotsdot", "subup"];
    let mut jobs: Vec<Job> = Vec::new();
    let mut k = 0usize;
    for pre in PREFIXES.iter() {
        for lead in leads.iter() {
            for ups in 0..=5usize {
                for climb in climbs.iter() {
                    if ups == 0 && *climb != ".." {
                        continue;
                    }
                    let root = root_for(idx);
                    let targets = [
                        "vq7n".to_string(),
                        "outer/canary.txt".to_string(),
                        "top.txt".to_string(),
                        "dest/old.txt".to_string(),
                        "dest/sub/vq7n".to_string(),
                        format!("{}/outer/canary.txt", root),
                        format!("{}/top.txt", &root[1..]),
                        format!("{}/outer/vq7abs", root),
                    ];
                    let target = &targets[k % targets.len()];
                    let mut loc = format!("{}{}", pre, lead);
                    for _ in 0..ups {
                        loc.push_str(climb);
                        loc.push('/');
                    }
                    loc.push_str(target);
                    jobs.push(mk_job("run", &root, dot_forms[(k / 8) % 4], &loc, outcomes[(k / 3) % 3], "attack-dot"));
                    idx += 1;
                    k += 1;
                }
            }
        }
    }
    for (i, loc) in ["x:../top.txt", "http://h//l1/l2/l3/dropped2.txt", "../outer/canary.txt", "file:///hello", "a/b.txt"].iter().enumerate() {
        for (j, f) in dot_forms.iter().enumerate() {
            let root = root_for(idx);
            jobs.push(mk_job("run", &root, f, loc, outcomes[(i + j) % 3], "attack-dot"));
            idx += 1;
        }
    }
    let res = execute(&jobs, workers);
    record(ctx, &jobs, res);

    // 1b''. (i) an EMPTY destination directory spelled relatively / through a symlink, objects that fail: the destination
    //       directory itself and its (otherwise empty) ancestors must survive the clean-up of `error`;
    //       (ii) locations with a QUERY / FRAGMENT full of `/../` (the writer must ignore them or keep them inside dest)
    ctx.case("empty-dest-and-query");
    let mut jobs: Vec<Job> = Vec::new();
    for f in ["emptyrel", "symdest"] {
        for loc in ["x", "a/b/x", "file:///hello", "http://h/a/b.txt", "a/b/", "../x", "http://h/seg.m4s?rep=1"] {
            for oc in outcomes.iter() {
                let root = root_for(idx);
                jobs.push(mk_job("run", &root, f, loc, oc, "empty-dest"));
                idx += 1;
            }
        }
    }
    let qforms = ["abs", "slash", "dots", "rel", "reldot", "dot", "dotdot", "dotsdot", "subup", "emptyrel", "symdest"];
    let mut k = 0usize;
    for base in ["http://h/seg.m4s", "http://h/a/seg.m4s", "file:///vq7n", "x:vq7n", "x:/a/b", "https://h/old.txt", "http://h/sub/in.txt"] {
        for sep in ["?", "#", "?q=1#", "?/", "#/"] {
            for ups in 1..=6usize {
                let root = root_for(idx);
                let targets = [
                    "top.txt".to_string(),
                    "outer/canary.txt".to_string(),
                    "vq7n".to_string(),
                    format!("{}/top.txt", &root[1..]),
                    "dest/old.txt".to_string(),
                ];
                let mut loc = format!("{}{}", base, sep);
                if !sep.ends_with('/') {
                    loc.push('/');
                }
                for _ in 0..ups {
                    loc.push_str("../");
                }
                loc.push_str(&targets[k % targets.len()]);
                jobs.push(mk_job("run", &root, qforms[k % qforms.len()], &loc, outcomes[(k / 2) % 3], "query"));
                idx += 1;
                k += 1;
            }
        }
    }
    let res = execute(&jobs, workers);
    record(ctx, &jobs, res);

    // 1c. histories: several writers of one builder in one sandbox, colliding / nested locations, calls in any
    //     order (protocol-conforming or not)
    ctx.case("histories");
    let seq_len = if ctx.tier_thorough { 4 } else { 3 };
    let n_hist_random = if ctx.tier_thorough { 25_000 } else { 2_500 };
    let core = ["x", "x/y", "p/q", "p", "old.txt", "sub"];
    let extra = [
        "x", "x/y", "p/q", "p", "old.txt", "sub/in.txt", "sub", "x/", "../x", "file:///x", "a/b/c", "/x", "//x", "x/../y", "./x",
        "a:../x", "http://h/p/q", "x/y/z", "sub/../../outer/canary.txt", "",
    ];
    let calls6 = ["0o", "0c", "0e", "1o", "1c", "1e"];
    let all_forms = ["abs", "slash", "dots", "rel", "reldot", "dot", "dotdot", "dotsdot", "subup", "emptyrel", "symdest"];
    let newtok = |loc: &str| format!("n={}={}", hex(loc.as_bytes()), url_ans(loc));
    let mut hops: Vec<String> = Vec::new();
    let mut k = 0usize;
    for la in core.iter() {
        for lb in core.iter() {
            let total = calls6.len().pow(seq_len as u32);
            for code in 0..total {
                let mut c = code;
                let mut toks = vec![newtok(la), newtok(lb)];
                for _ in 0..seq_len {
                    toks.push(calls6[c % 6].to_string());
                    c /= 6;
                }
                hops.push(format!("path seq {} {} {}", root_for(idx), all_forms[k % all_forms.len()], toks.join(",")));
                idx += 1;
                k += 1;
            }
        }
    }
    for _ in 0..n_hist_random {
        let nw = rng_hist(ctx.seed, k, 0) % 3 + 1;
        let mut toks: Vec<String> = Vec::new();
        let mut made = 0usize;
        let len = 3 + rng_hist(ctx.seed, k, 1) % 9;
        for j in 0..len {
            let r = rng_hist(ctx.seed, k, 2 + j);
            if made == 0 || (made < nw && r % 4 == 0) {
                toks.push(newtok(extra[(r / 7) % extra.len()]));
                made += 1;
            } else {
                let call = ["o", "o", "o", "w", "c", "e", "e", "i"][(r / 5) % 8];
                toks.push(format!("{}{}", (r / 64) % made, call));
            }
        }
        hops.push(format!("path seq {} {} {}", root_for(idx), all_forms[k % all_forms.len()], toks.join(",")));
        idx += 1;
        k += 1;
    }
    let res = execute_ops(&hops, workers);
    for (i, (op, (obs, fails))) in hops.iter().zip(res.into_iter()).enumerate() {
        ctx.op(op, &obs);
        ctx.evaluations += 1;
        for (c, d) in fails {
            ctx.oracle_fail(&c, &format!("{} :: op `{}` -> `{}`", d, op, obs));
        }
        let effects = obs.matches(':').count();
        ctx.count(&format!("history:effects={}", effects.min(4)));
        if effects > 0 {
            let toks = op.split(' ').nth(4).unwrap_or("");
            ctx.nontrivial(&format!("seq {} {}", op.split(' ').nth(3).unwrap_or(""), toks));
        }
        if i == 100 || i == 7000 {
            ctx.sample(format!("{} -> {}", op, obs));
        }
    }

    // 2. seeded random strings
    ctx.case("random");
    let mut rng = Rng::new(ctx.seed);
    let mut jobs: Vec<Job> = Vec::new();
    let fixed: [&str; 14] = [
        "file:///hello", "http://h/a/b.txt", "a:../x", "//abs", "../x", "a:../../x", "file:///old.txt", "sub", "sub/in.txt",
        "old.txt/x", "file:///", "", "/", "file:///a/b/",
    ];
    for i in 0..n_random {
        let root = root_for(idx);
        let loc = if i < fixed.len() { fixed[i].to_string() } else { random_loc(&mut rng, &root, false) };
        let oc = outcomes[rng.below(3) as usize];
        let form = forms[rng.below(3) as usize];
        jobs.push(mk_job("run", &root, form, &loc, oc, "random"));
        idx += 1;
    }
    let res = execute(&jobs, workers);
    for k in 0..3 {
        ctx.sample(format!("{} [{}] -> {}", jobs[k].op, jobs[k].loc, res[k].0));
    }
    record(ctx, &jobs, res);

    // 3. full FLUTE sessions
    ctx.case("sessions");
    let mut jobs: Vec<Job> = Vec::new();
    let sess_fixed: [&str; 12] = [
        "file:///hello", "http://h/a/b.txt", "a:../x", "//abs", "../x", "x:../../vq7n", "file:///old.txt", "sub/in.txt",
        "x://h//vq7n", "..%2f/x", "a\\..\\b", "file:///a/b/",
    ];
    let mut made = 0usize;
    let mut tries = 0usize;
    while made < n_sess && tries < n_sess * 20 {
        tries += 1;
        let root = root_for(idx);
        let loc = if made < sess_fixed.len() {
            sess_fixed[made].to_string()
        } else if rng.chance(1, 2) {
            // a grammar string
            let kinds = grammar_segments(&root);
            let d = rng.range(0, 5) as usize;
            let parts: Vec<&str> = (0..d).map(|_| kinds[rng.below(8) as usize].as_str()).collect();
            format!("{}{}", rng.pick(&PREFIXES), parts.join("/"))
        } else {
            random_loc(&mut rng, &root, true)
        };
        if !session_deliverable(&loc) || loc.len() > 600 || session_packets(&loc).is_err() {
            ctx.count("sessions:not-deliverable-skipped");
            continue;
        }
        let oc = outcomes[made % 3];
        let form = forms[rng.below(3) as usize];
        jobs.push(mk_job("sess", &root, form, &loc, oc, "session"));
        idx += 1;
        made += 1;
    }
    let res = execute(&jobs, workers);
    for k in 0..2.min(jobs.len()) {
        ctx.sample(format!("{} [{}] -> {}", jobs[k].op, jobs[k].loc, res[k].0));
    }
    record(ctx, &jobs, res);

    // 4. relative dest (needs chdir: one thread)
    ctx.case("relative-dest");
    let mut jobs: Vec<Job> = Vec::new();
    let n_rel = if ctx.tier_thorough { 3_000 } else { 400 };
    for i in 0..n_rel {
        let root = root_for(idx);
        let loc = if i < fixed.len() { fixed[i].to_string() } else { random_loc(&mut rng, &root, false) };
        let oc = outcomes[rng.below(3) as usize];
        let form = if i % 2 == 0 { "rel" } else { "reldot" };
        jobs.push(mk_job("run", &root, form, &loc, oc, "reldest"));
        idx += 1;
    }
    let res = execute(&jobs, 1);
    record(ctx, &jobs, res);
}

fn main() {
    let args: Vec<String> = std::env::args().collect();
    if args.len() == 5 && args[1] == "worker" {
        worker_main(&args[2], &args[3], &args[4]);
        return;
    }
    harness_core::engine_main("path", || Box::new(PathEngine), run);
}
