//! Minimal stand-alone decoder of what C08/C20 need from an ALC/LCT datagram, written from
//! RFC 5651 §5.1 (LCT header) and the FEC payload ID layouts of RFC 5445 (No-Code, FEC ID 0),
//! RFC 5510 (Reed-Solomon GF(2^8), FEC ID 5), RFC 5445 §5 small-block systematic (FEC ID 129),
//! RFC 6330 (RaptorQ, FEC ID 6) and RFC 5053 (Raptor, FEC ID 1).  Shares no code with flute.

#[derive(Debug, Clone, PartialEq)]
pub struct Dec {
    pub toi: u128,
    pub tsi: u64,
    pub cp: u8,
    pub close_session: bool, // A
    pub close_object: bool,  // B
    pub sbn: u32,
    pub esi: u32,
    /// source block length carried in the payload ID (FEC ID 129 only)
    pub sbl: Option<u32>,
    pub payload: Vec<u8>,
    /// the fields of EXT_FTI (HET 64) as the FEC scheme of the codepoint lays them out, `None` = no EXT_FTI:
    /// FEC ID 0 (RFC 5445): L(48) E(16) B(32); 5 (RFC 5510): L(48) E(16) B(8) max_n(8);
    /// 129 (RFC 5445 small block systematic): L(48) instance(16) E(16) B(16) max_n(16);
    /// 6 (RFC 6330): F(40) T(16) Z(8) N(16) Al(8); 1 (RFC 5053): F(48) T(16) Z(16) N(8) Al(8)
    pub fti: Option<Vec<u64>>,
}

/// walk the header extensions of [from, to) (RFC 5651 §5.2: HET < 128 variable length with HEL in words, HET >= 128
/// one word) and decode EXT_FTI by the layout of FEC encoding ID `cp`; `Err` = malformed extension area / EXT_FTI
fn ext_fti(d: &[u8], from: usize, to: usize, cp: u8) -> Result<Option<Vec<u64>>, ()> {
    let mut pos = from;
    let mut out = None;
    while pos < to {
        let het = d[pos];
        if pos + 1 >= to {
            return Err(());
        }
        let len = if het >= 128 { 4 } else { d[pos + 1] as usize * 4 };
        if len == 0 || pos + len > to {
            return Err(());
        }
        if het == 64 {
            let x = &d[pos..pos + len];
            let f = |a: usize, b: usize| be(&x[a..b]) as u64;
            let v = match (cp, len) {
                (0, 16) => vec![f(2, 8), f(10, 12), f(12, 16)],
                (5, 12) => vec![f(2, 8), f(8, 10), f(10, 11), f(11, 12)],
                (129, 16) => vec![f(2, 8), f(8, 10), f(10, 12), f(12, 14), f(14, 16)],
                (6, 16) => vec![f(2, 7), f(8, 10), f(10, 11), f(11, 13), f(13, 14)],
                (1, 16) => vec![f(2, 8), f(10, 12), f(12, 14), f(14, 15), f(15, 16)],
                _ => return Err(()),
            };
            if out.is_some() {
                return Err(());
            }
            out = Some(v);
        }
        pos += len;
    }
    Ok(out)
}

fn be(b: &[u8]) -> u128 {
    let mut v: u128 = 0;
    for x in b {
        v = (v << 8) | *x as u128;
    }
    v
}

/// decode one datagram; `None` = not a well-formed ALC packet of a known FEC encoding ID
pub fn decode(d: &[u8]) -> Option<Dec> {
    if d.len() < 4 {
        return None;
    }
    let v = d[0] >> 4;
    if v != 1 {
        return None;
    }
    let c = ((d[0] >> 2) & 3) as usize;
    let s = ((d[1] >> 7) & 1) as usize;
    let o = ((d[1] >> 5) & 3) as usize;
    let h = ((d[1] >> 4) & 1) as usize;
    let a = (d[1] >> 1) & 1 == 1;
    let b = d[1] & 1 == 1;
    let hdr_len = d[2] as usize * 4;
    let cp = d[3];
    let cci_len = 4 * (c + 1);
    let tsi_len = 4 * s + 2 * h;
    let toi_len = 4 * o + 2 * h;
    let fixed = 4 + cci_len + tsi_len + toi_len;
    if hdr_len < fixed || d.len() < hdr_len {
        return None;
    }
    let tsi = be(&d[4 + cci_len..4 + cci_len + tsi_len]) as u64;
    let toi = be(&d[4 + cci_len + tsi_len..fixed]);
    // header extensions occupy [fixed, hdr_len) (HDR_LEN is authoritative): only EXT_FTI is decoded
    let fti = ext_fti(d, fixed, hdr_len, cp).ok()?;
    let p = &d[hdr_len..];
    let (sbn, esi, sbl, idlen) = match cp {
        0 | 1 => {
            // 16 bit SBN | 16 bit ESI
            if p.len() < 4 {
                return None;
            }
            (be(&p[0..2]) as u32, be(&p[2..4]) as u32, None, 4)
        }
        5 => {
            // 24 bit SBN | 8 bit ESI   (m = 8)
            if p.len() < 4 {
                return None;
            }
            (be(&p[0..3]) as u32, p[3] as u32, None, 4)
        }
        6 => {
            // 8 bit SBN | 24 bit ESI
            if p.len() < 4 {
                return None;
            }
            (p[0] as u32, be(&p[1..4]) as u32, None, 4)
        }
        129 => {
            // 32 bit SBN | 16 bit source block length | 16 bit ESI
            if p.len() < 8 {
                return None;
            }
            (be(&p[0..4]) as u32, be(&p[6..8]) as u32, Some(be(&p[4..6]) as u32), 8)
        }
        _ => return None,
    };
    Some(Dec { toi, tsi, cp, close_session: a, close_object: b, sbn, esi, sbl, payload: p[idlen..].to_vec(), fti })
}
