//! C08 / C20: the sender's block encoder, observed through a REAL `flute::sender::Sender` carrying one
//! object (FullFDT mode).  Every datagram returned by `Sender::read` is decoded by the stand-alone RFC
//! decoder `rfcdec` (no flute code), FDT packets (TOI 0) are skipped, and the object packets are
//! reported as `(SBN, ESI, payload length, payload hash for source symbols, source block length for
//! FEC ID 129, A, B)`.  The same operation lines are fed to the Lean model (`drv_benc`).
//!
//! Operation lines
//!   benc new <scheme> <E> <B> <parity> <window> <maxtc> <allow> <carousel> <cenc> <src> <obj>
//!        scheme   nocode | rs28 | rs28us | raptorq | raptor
//!        allow    0|1   allow_immediate_stop_before_first_transfer
//!        carousel 0|1   DelayBetweenTransfers(1 s)
//!        cenc     null | zlib | deflate | gzip
//!        src      buf | cur | file | bufrd | chk:f<n> | chk:l<a>.<b>... | chk:r<seed>.<max>
//!        obj      h:<hex> | g:<seed>:<len>     (bytes handed to the API, before content encoding)
//!        te       (appended by the harness for cenc != null: hex of the transfer-encoded bytes, else `=`)
//!   benc read | benc readall | benc remove | benc tick | benc close
mod rfcdec;

use flute::core::lct::Cenc;
use flute::core::{Oti, UDPEndpoint};
use flute::sender::{CarouselRepeatMode, Config, ObjectDesc, Sender, TransferConfig};
use harness_core::{guarded, hex, Ctx, Engine, Oracle, Rng};
use std::io::{Read, Seek, SeekFrom};
use std::panic::AssertUnwindSafe;
use std::time::{Duration, SystemTime};

// ------------------------------------------------------------------------------------------------
// helpers shared with the model driver (same definitions in lean/FluteModel/Drv/Benc.lean)

pub fn lcg_next(x: u64) -> u64 {
    x.wrapping_mul(6364136223846793005).wrapping_add(1442695040888963407)
}

/// object bytes `g:<seed>:<len>`
pub fn gen_bytes(seed: u64, len: usize) -> Vec<u8> {
    let mut x = seed;
    (0..len)
        .map(|_| {
            x = lcg_next(x);
            (x >> 33) as u8
        })
        .collect()
}

pub fn fnv64(b: &[u8]) -> u64 {
    let mut h: u64 = 0xcbf29ce484222325;
    for x in b {
        h ^= *x as u64;
        h = h.wrapping_mul(0x100000001b3);
    }
    h
}

fn unhex(s: &str) -> Option<Vec<u8>> {
    if s == "-" {
        return Some(vec![]);
    }
    if s.len() % 2 != 0 {
        return None;
    }
    (0..s.len() / 2).map(|i| u8::from_str_radix(&s[2 * i..2 * i + 2], 16).ok()).collect()
}

/// read-chunking schedule: the i-th `read` call returns at most `at(i)` bytes (never 0 before EOF)
#[derive(Debug, Clone)]
pub enum Sched {
    Fixed(usize),
    List(Vec<usize>),
    Rand(u64, usize),
}

/// RFC 4648 §4 base64 with padding
fn base64_std(b: &[u8]) -> String {
    const A: &[u8; 64] = b"ABCDEFGHIJKLMNOPQRSTUVWXYZabcdefghijklmnopqrstuvwxyz0123456789+/";
    let mut out = String::new();
    for c in b.chunks(3) {
        let v = (c[0] as u32) << 16 | (*c.get(1).unwrap_or(&0) as u32) << 8 | *c.get(2).unwrap_or(&0) as u32;
        out.push(A[(v >> 18) as usize & 63] as char);
        out.push(A[(v >> 12) as usize & 63] as char);
        out.push(if c.len() > 1 { A[(v >> 6) as usize & 63] as char } else { '=' });
        out.push(if c.len() > 2 { A[v as usize & 63] as char } else { '=' });
    }
    out
}

fn parse_sched(s: &str) -> Option<Sched> {
    let (k, rest) = s.split_at(1);
    match k {
        "f" => rest.parse().ok().map(Sched::Fixed),
        "l" => rest.split('.').map(|x| x.parse().ok()).collect::<Option<Vec<usize>>>().map(Sched::List),
        "r" => {
            let mut it = rest.split('.');
            let seed = it.next()?.parse().ok()?;
            let max = it.next()?.parse().ok()?;
            Some(Sched::Rand(seed, max))
        }
        _ => None,
    }
}

/// A seekable reader that returns short reads according to a schedule.
#[derive(Debug)]
pub struct Chunked {
    data: Vec<u8>,
    pos: usize,
    sched: Sched,
    calls: usize,
    rnd: u64,
    /// source fault: once this many `read` calls have succeeded `read` returns an error (seek keeps working):
    /// kind b'p' = every later call `Err(Other)`; b't' = that call only `Err(TimedOut)`; b'i' = that call only
    /// `Err(Interrupted)`; b'j' = `Err(Interrupted)` three times, then success
    fail_after: Option<usize>,
    fail_kind: u8,
    fired: u32,
    ok_reads: usize,
    /// true while the object is being CREATED (`ObjectDesc::create_from_stream` with compute_md5 reads the whole stream
    /// once for Content-MD5): those reads are chunked by the same schedule (short reads) but inject no fault, and the
    /// schedule starts again from its first entry afterwards - the transfers see exactly the schedule of the op, as the
    /// model does
    setup: std::sync::Arc<std::sync::atomic::AtomicBool>,
    in_setup: bool,
}

impl Chunked {
    fn new(data: Vec<u8>, sched: Sched) -> Chunked {
        let rnd = if let Sched::Rand(s, _) = sched { s } else { 0 };
        Chunked { data, pos: 0, sched, calls: 0, rnd, fail_after: None, fail_kind: b'p', fired: 0, ok_reads: 0, setup: Default::default(), in_setup: false }
    }
    fn phase(&mut self) -> bool {
        let setup = self.setup.load(std::sync::atomic::Ordering::SeqCst);
        if setup {
            self.in_setup = true;
        } else if self.in_setup {
            self.in_setup = false;
            self.calls = 0;
            self.rnd = if let Sched::Rand(s, _) = self.sched { s } else { 0 };
            self.ok_reads = 0;
            self.fired = 0;
        }
        setup
    }
    fn next_limit(&mut self) -> usize {
        let i = self.calls;
        self.calls += 1;
        let v = match &self.sched {
            Sched::Fixed(n) => *n,
            Sched::List(l) => {
                if i < l.len() {
                    l[i]
                } else {
                    usize::MAX
                }
            }
            Sched::Rand(_, max) => {
                self.rnd = lcg_next(self.rnd);
                1 + ((self.rnd >> 33) as usize) % (*max).max(1)
            }
        };
        v.max(1)
    }
}

impl Read for Chunked {
    fn read(&mut self, buf: &mut [u8]) -> std::io::Result<usize> {
        let setup = self.phase();
        if let (Some(k), false) = (self.fail_after, setup) {
            if self.ok_reads >= k {
                use std::io::ErrorKind::*;
                let (kind, times) = match self.fail_kind {
                    b't' => (TimedOut, 1),
                    b'i' => (Interrupted, 1),
                    b'j' => (Interrupted, 3),
                    _ => (Other, u32::MAX),
                };
                if self.fired < times {
                    self.fired = self.fired.saturating_add(1);
                    return Err(std::io::Error::new(kind, "injected read error"));
                }
            }
        }
        self.ok_reads += 1;
        let lim = self.next_limit();
        let rem = self.data.len().saturating_sub(self.pos);
        let n = buf.len().min(lim).min(rem);
        buf[..n].copy_from_slice(&self.data[self.pos..self.pos + n]);
        self.pos += n;
        Ok(n)
    }
}

impl Seek for Chunked {
    fn seek(&mut self, p: SeekFrom) -> std::io::Result<u64> {
        let np: i128 = match p {
            SeekFrom::Start(n) => n as i128,
            SeekFrom::End(o) => self.data.len() as i128 + o as i128,
            SeekFrom::Current(o) => self.pos as i128 + o as i128,
        };
        if np < 0 {
            return Err(std::io::Error::new(std::io::ErrorKind::InvalidInput, "negative seek"));
        }
        self.pos = np as usize;
        Ok(self.pos as u64)
    }
}

// ------------------------------------------------------------------------------------------------
// RFC 5052 §9.1 in u128 (independent of flute): (T, N, A_large, A_small, I)
fn rfc5052(l: u128, e: u128, b: u128) -> (u128, u128, u128, u128, u128) {
    if e == 0 || b == 0 {
        return (0, 0, 0, 0, 0);
    }
    let t = (l + e - 1) / e;
    let n = (t + b - 1) / b;
    if n == 0 {
        return (t, 0, 0, 0, 0);
    }
    (t, n, (t + n - 1) / n, t / n, t - (t / n) * n)
}

#[derive(Clone, Debug)]
struct Part {
    t: u64,
    n: u64,
    al: u64,
    asm: u64,
    i: u64,
}
impl Part {
    fn new(l: u64, e: u64, b: u64) -> Part {
        let (t, n, al, asm, i) = rfc5052(l as u128, e as u128, b as u128);
        Part { t: t as u64, n: n as u64, al: al as u64, asm: asm as u64, i: i as u64 }
    }
    fn k(&self, sbn: u64) -> u64 {
        if sbn < self.i {
            self.al
        } else {
            self.asm
        }
    }
    fn first(&self, sbn: u64) -> u64 {
        if sbn <= self.i {
            sbn * self.al
        } else {
            self.i * self.al + (sbn - self.i) * self.asm
        }
    }
}

/// The piece raptor_code's `Partition::new(n, k).create_source_block` cuts at `esi` out of the block of `k`
/// symbols that starts at byte `start` of `te` (n = the block's bytes, the last block may be short);
/// `None` when the block is a multiple of E (then the pieces ARE the E-byte slices) or out of range.
fn raptor_piece(te: &[u8], start: u64, k: u64, e: u64, esi: u64) -> Option<&[u8]> {
    let start = start as usize;
    if start >= te.len() || k == 0 || esi >= k {
        return None;
    }
    let end = (start + (k * e) as usize).min(te.len());
    let n = (end - start) as u64;
    if n % e == 0 {
        return None;
    }
    let is = n / k;
    let il = (n + k - 1) / k;
    let jl = n - is * k;
    let (off, sz) = if esi < jl { (esi * il, il) } else { (jl * il + (esi - jl) * is, is) };
    Some(&te[start + off as usize..start + (off + sz) as usize])
}

#[derive(Clone, Debug)]
struct Obs {
    sbn: u32,
    esi: u32,
    payload: Vec<u8>,
    a: bool,
    b: bool,
    /// `remove_object` had succeeded before this packet was read
    after_remove: bool,
    /// source block length carried by the FEC payload ID (FEC ID 129)
    sbl: Option<u32>,
    /// FNV-64 of the whole datagram / of what precedes the payload (LCT header, extensions, FEC payload ID)
    /// TOI, codepoint and EXT_FTI fields as the independent RFC decoder reads them
    hdr: String,
}

struct Sess {
    sender: Sender,
    toi: u128,
    now: SystemTime,
    scheme: String,
    e: u64,
    p: u64,
    win: u64,
    maxtc: u64,
    car: bool,
    cenc: Cenc,
    obj: Vec<u8>,
    /// transfer-encoded object (what the source symbols must slice)
    te: Vec<u8>,
    part: Part,
    trace: Vec<Obs>,
    removed: bool,
    ended: bool,
    dead: bool,
    ticked: bool,
    /// the source is a fault-injecting stream: completeness clauses are not evaluated (the property presupposes a source
    /// that can be read), the flag / slice / order / window clauses are
    fault: bool,
    /// transient fault (one read fails once): at most ONE transfer may be incomplete, every other transfer is complete
    fault_once: bool,
    tmp: Option<std::path::PathBuf>,
}

/// FNV-64 of every object datagram of the current session, whole datagram (header, extensions, payload id, payload -
/// repair payloads included): compared pairwise between sources by the C20 oracle, never with the model
pub static RAW: std::sync::Mutex<Vec<u64>> = std::sync::Mutex::new(Vec::new());

pub struct BencEngine {
    s: Option<Sess>,
    workdir: std::path::PathBuf,
    nfile: u64,
}

fn make_oti(scheme: &str, e: u64, b: u64, p: u64) -> Option<Oti> {
    let e16 = u16::try_from(e).ok()?;
    match scheme {
        "nocode" => {
            let mut o = Oti::new_no_code(e16, u16::try_from(b).ok()?);
            // the parity field is ignored by No-Code; keep what the op says so that the model sees the same
            o.max_number_of_parity_symbols = p as u32;
            Some(o)
        }
        "rs28" => Oti::new_reed_solomon_rs28(e16, u8::try_from(b).ok()?, u8::try_from(p).ok()?).ok(),
        "rs28us" => Oti::new_reed_solomon_rs28_under_specified(e16, u16::try_from(b).ok()?, u16::try_from(p).ok()?).ok(),
        "raptorq" => Oti::new_raptorq(e16, u16::try_from(b).ok()?, u16::try_from(p).ok()?, 1, 1).ok(),
        "raptor" => Oti::new_raptor(e16, u16::try_from(b).ok()?, u16::try_from(p).ok()?, 1, 1).ok(),
        _ => None,
    }
}

fn parse_cenc(s: &str) -> Option<Cenc> {
    match s {
        "null" => Some(Cenc::Null),
        "zlib" => Some(Cenc::Zlib),
        "deflate" => Some(Cenc::Deflate),
        "gzip" => Some(Cenc::Gzip),
        _ => None,
    }
}

fn decompress(d: &[u8], c: Cenc) -> Option<Vec<u8>> {
    let mut out = Vec::new();
    let r = match c {
        Cenc::Null => {
            out = d.to_vec();
            Ok(0)
        }
        Cenc::Zlib => flate2::read::ZlibDecoder::new(d).read_to_end(&mut out),
        Cenc::Deflate => flate2::read::DeflateDecoder::new(d).read_to_end(&mut out),
        Cenc::Gzip => flate2::read::GzDecoder::new(d).read_to_end(&mut out),
    };
    r.ok().map(|_| out)
}

impl BencEngine {
    pub fn new() -> BencEngine {
        let workdir = std::path::PathBuf::from(format!("/verif/work/benc-files-{}", std::process::id()));
        BencEngine { s: None, workdir, nfile: 0 }
    }

    fn drop_sess(&mut self) {
        if let Some(s) = self.s.take() {
            if let Some(p) = s.tmp {
                std::fs::remove_file(p).ok();
            }
        }
    }

    fn op_new(&mut self, t: &[&str], o: &mut Oracle) -> String {
        self.drop_sess();
        RAW.lock().unwrap().clear();
        if t.len() != 12 {
            return "bad-op".into();
        }
        let nums: Option<Vec<u64>> = t[1..8].iter().map(|x| x.parse().ok()).collect();
        let nums = match nums {
            Some(n) => n,
            None => return "bad-op".into(),
        };
        let (e, b, p, win, maxtc, allow, car) = (nums[0], nums[1], nums[2], nums[3], nums[4], nums[5] == 1, nums[6] == 1);
        let scheme = t[0].to_string();
        let cenc = match parse_cenc(t[8]) {
            Some(c) => c,
            None => return "bad-op".into(),
        };
        let obj = if let Some(h) = t[10].strip_prefix("h:") {
            match unhex(h) {
                Some(v) => v,
                None => return "bad-op".into(),
            }
        } else if let Some(g) = t[10].strip_prefix("g:") {
            let mut it = g.split(':');
            match (it.next().and_then(|x| x.parse().ok()), it.next().and_then(|x| x.parse().ok())) {
                (Some(seed), Some(len)) => gen_bytes(seed, len),
                _ => return "bad-op".into(),
            }
        } else {
            return "bad-op".into();
        };
        let oti = match make_oti(&scheme, e, b, p) {
            Some(o) => o,
            None => return "bad-oti".into(),
        };
        if win > 255 || maxtc > u32::MAX as u64 {
            return "bad-op".into();
        }
        let mut cfg = Config::default();
        cfg.interleave_blocks = win as u8;
        cfg.toi_initial_value = Some(1);
        // ONE transfer slot, as in the model's `Session` (with the default 3 slots another slot starts the next transfer of
        // the object in the same `Sender::read` when a transfer ends without packet - sched's domain)
        cfg.priority_queues = std::collections::BTreeMap::from([(0, flute::sender::PriorityQueue::new(1))]);
        let endpoint = UDPEndpoint::new(None, "224.0.0.1".to_string(), 3400);
        // the session's default OTI (used for the FDT) stays the library default; the object carries its own
        let default_oti: Oti = Default::default();
        let mut sender = Sender::new(endpoint, 1, &default_oti, &cfg);
        let tc = TransferConfig {
            max_transfer_count: maxtc as u32,
            carousel_mode: if car { Some(CarouselRepeatMode::DelayBetweenTransfers(Duration::from_secs(1))) } else { None },
            cenc,
            oti: Some(oti),
            allow_immediate_stop_before_first_transfer: if allow { Some(true) } else { None },
            ..Default::default()
        };
        let url = url::Url::parse("file:///obj").unwrap();
        // source spec: <base>[@pre<N>|@post<N>]  - the stream is positioned at byte N before the object is created
        // (`pre`, MD5 off: nothing rewinds it) or between object creation and the first transfer (`post`)
        let (src, prepos, postpos): (&str, Option<u64>, Option<u64>) = match t[9].split_once('@') {
            None => (t[9], None, None),
            Some((b, sfx)) => {
                if let Some(n) = sfx.strip_prefix("pre").and_then(|x| x.parse().ok()) {
                    (b, Some(n), None)
                } else if let Some(n) = sfx.strip_prefix("post").and_then(|x| x.parse().ok()) {
                    (b, None, Some(n))
                } else {
                    return "bad-op".into();
                }
            }
        };
        let mut tmp = None;
        let mut fault = false;
        let mut fault_once = false;
        let mut fkind = b'p';
        let obj2 = obj.clone();
        let md5 = prepos.is_none();
        let setup = std::sync::Arc::new(std::sync::atomic::AtomicBool::new(true));
        let mk_file = |this: &mut BencEngine| -> std::path::PathBuf {
            std::fs::create_dir_all(&this.workdir).ok();
            this.nfile += 1;
            let path = this.workdir.join(format!("obj-{}.bin", this.nfile));
            std::fs::write(&path, &obj).unwrap();
            path
        };
        let desc = match src {
            "buf" => {
                if prepos.is_some() || postpos.is_some() {
                    return "bad-op".into();
                }
                guarded(AssertUnwindSafe(|| ObjectDesc::create_from_buffer(obj2, "application/octet-stream", &url, true, tc)))
            }
            "ffile-ram" | "ffile-stream" => {
                // the public file entry point
                if prepos.is_some() || postpos.is_some() {
                    return "bad-op".into();
                }
                let path = mk_file(self);
                tmp = Some(path.clone());
                let ram = src == "ffile-ram";
                guarded(AssertUnwindSafe(move || ObjectDesc::create_from_file(&path, Some(&url), "application/octet-stream", ram, true, tc)))
            }
            _ => {
                let stream: flute::sender::ObjectDataStream = match src {
                    "cur" => Box::new(std::io::Cursor::new(obj2)),
                    "file" | "bufrd" => {
                        let path = mk_file(self);
                        tmp = Some(path.clone());
                        let f = std::fs::File::open(&path).unwrap();
                        if src == "bufrd" {
                            Box::new(std::io::BufReader::new(f))
                        } else {
                            Box::new(f)
                        }
                    }
                    s if s.starts_with("chk:") => {
                        let (spec, fail) = match s[4..].split_once('!') {
                            None => (&s[4..], None),
                            Some((a, k)) => {
                                let (num, kind) = match k.as_bytes().last() {
                                    Some(c @ (b't' | b'i' | b'j')) => (&k[..k.len() - 1], *c),
                                    _ => (k, b'p'),
                                };
                                fkind = kind;
                                match num.parse::<usize>() {
                                    Ok(k) => (a, Some(k)),
                                    Err(_) => return "bad-op".into(),
                                }
                            }
                        };
                        match parse_sched(spec) {
                            Some(x) => {
                                let mut c = Chunked::new(obj2, x);
                                c.setup = setup.clone();
                                c.fail_after = fail;
                                c.fail_kind = fkind;
                                // Interrupted is retried by the sender: not a fault as far as the packets are concerned
                                fault = fail.is_some() && (fkind == b'p' || fkind == b't');
                                fault_once = fail.is_some() && fkind == b't';
                                Box::new(c)
                            }
                            None => return "bad-op".into(),
                        }
                    }
                    _ => return "bad-op".into(),
                };
                let mut stream = stream;
                if let Some(n) = prepos {
                    stream.seek(SeekFrom::Start(n)).ok();
                }
                // no MD5 for a pre-positioned stream (it would rewind it); the chunked reader serves the MD5 pass with
                // short reads too (`Chunked::setup`) and restarts its schedule for the transfers
                guarded(AssertUnwindSafe(move || ObjectDesc::create_from_stream(stream, "application/octet-stream", &url, md5, tc)))
            }
        };
        setup.store(false, std::sync::atomic::Ordering::SeqCst);
        let desc = match desc {
            Ok(Ok(d)) => {
                if let Some(n) = postpos {
                    if let flute::sender::ObjectDataSource::Stream(m) = &d.source {
                        m.lock().unwrap().seek(SeekFrom::Start(n)).ok();
                    }
                }
                Ok(Ok(d))
            }
            x => x,
        };
        let desc = match desc {
            Err(_) => return "PANIC".into(),
            Ok(Err(_)) => {
                if let Some(p) = tmp {
                    std::fs::remove_file(p).ok();
                }
                return "ERR create".into();
            }
            Ok(Ok(d)) => d,
        };
        let l = desc.transfer_length;
        // C20 (the FDT's packets are packets of the session too): the Content-MD5 the object is announced with is the
        // MD5 of the object's bytes (RFC 2616 §14.15: before content encoding), whatever the source kind and however its
        // reads are cut - computed here by the md5 crate over the op's bytes, not by flute's read loop
        let md5_want = base64_std(&md5::compute(&obj).0);
        let md5_desc = desc.md5.clone();
        // the transfer-encoded bytes: what flute's own public compressor yields (cenc null: the object itself)
        let te = if t[11] == "=" {
            obj.clone()
        } else {
            match unhex(t[11]) {
                Some(v) => v,
                None => return "bad-op".into(),
            }
        };
        if (src == "buf" || src == "ffile-ram") && cenc != Cenc::Null {
            // the op must carry what flute's public compressor yields for this object
            match flute::sender::compress::compress_buffer(&obj, cenc) {
                Ok(v) if v == te => {}
                _ => return "bad-te".into(),
            }
        }
        let r = guarded(AssertUnwindSafe(|| sender.add_object(0, desc)));
        let toi = match r {
            Err(_) => return "PANIC".into(),
            Ok(Err(_)) => {
                if let Some(p) = tmp {
                    std::fs::remove_file(p).ok();
                }
                return "ERR add".into();
            }
            Ok(Ok(t)) => t,
        };
        let now = SystemTime::UNIX_EPOCH + Duration::from_secs(1_700_000_000);
        if sender.publish(now).is_err() {
            return "ERR publish".into();
        }
        if md5 {
            // what the FDT instance announces (the XML `Sender::fdt_xml_data` yields is the FDT object's content)
            let xml = sender.fdt_xml_data(now).map(|v| String::from_utf8_lossy(&v).to_string()).unwrap_or_default();
            let announced = xml.split_once("Content-MD5=\"").and_then(|(_, r)| r.split_once('"')).map(|(v, _)| v.to_string());
            if announced.as_deref() != Some(md5_want.as_str()) || md5_desc.as_deref() != Some(md5_want.as_str()) {
                o.fail("C20:md5-differs-by-source", &format!(
                    "Content-MD5 announced in the FDT {:?} / ObjectDesc.md5 {:?} != MD5 of the {} object bytes {} (what the buffer source announces) for source `{}`",
                    announced, md5_desc, obj.len(), md5_want, src
                ));
            }
        }
        self.s = Some(Sess {
            sender,
            toi,
            now,
            scheme,
            e,
            p,
            win,
            maxtc,
            car,
            cenc,
            obj,
            te,
            part: Part::new(l, e, b),
            trace: Vec::new(),
            removed: false,
            ended: false,
            dead: false,
            ticked: false,
            fault,
            fault_once,
            tmp,
        });
        format!("ok {}", l)
    }

    /// next object packet (FDT packets skipped); Ok(None) = `read` returned None
    fn next_pkt(&mut self, o: &mut Oracle) -> Result<Option<Obs>, String> {
        let s = self.s.as_mut().unwrap();
        loop {
            let now = s.now;
            let sender = &mut s.sender;
            let r = guarded(AssertUnwindSafe(|| sender.read(now)));
            let d = match r {
                Err(loc) => {
                    s.dead = true;
                    return Err(loc);
                }
                Ok(None) => return Ok(None),
                Ok(Some(d)) => d,
            };
            let dec = match rfcdec::decode(&d) {
                Some(x) => x,
                None => {
                    o.fail("undecodable", &format!("datagram not decodable by the RFC decoder: {}", hex(&d[..d.len().min(40)])));
                    continue;
                }
            };
            if dec.close_session {
                o.fail("a-flag-in-read", &format!("close-session flag A set in a packet returned by Sender::read (toi {})", dec.toi));
            }
            if dec.toi == 0 {
                continue;
            }
            if dec.toi != s.toi || dec.tsi != 1 {
                o.fail("foreign-toi", &format!("packet of unknown TOI {} / TSI {}", dec.toi, dec.tsi));
                continue;
            }
            RAW.lock().unwrap().push(fnv64(&d));
            let fti = match &dec.fti {
                Some(v) => v.iter().map(|x| x.to_string()).collect::<Vec<_>>().join(":"),
                None => "-".to_string(),
            };
            let hdr = format!("t{}/c{}/{}", dec.toi, dec.cp, fti);
            let ob = Obs { sbn: dec.sbn, esi: dec.esi, payload: dec.payload, a: dec.close_session, b: dec.close_object, after_remove: s.removed, sbl: dec.sbl, hdr };
            s.trace.push(ob.clone());
            return Ok(Some(ob));
        }
    }

    fn fmt_pkt(&self, ob: &Obs) -> String {
        let s = self.s.as_ref().unwrap();
        let k = s.part.k(ob.sbn as u64);
        // repair symbols: library output, neither bytes nor length are compared
        let (len, h) = if (ob.esi as u64) < k { (ob.payload.len().to_string(), format!("{:016x}", fnv64(&ob.payload))) } else { ("-".to_string(), "r".to_string()) };
        let sbl = match ob.sbl {
            Some(v) => v.to_string(),
            None => "-".to_string(),
        };
        // what an RFC decoder reads off the datagram besides the payload ID: TOI, codepoint, EXT_FTI fields - compared with
        // the model's (TOI, FEC encoding ID, Admission's OTI + transfer length); NOT the header's byte layout (field
        // widths, HDR_LEN, flag bits are C06's: engine wire)
        format!("{},{},{},{},{},{},{},{}", ob.sbn, ob.esi, len, h, sbl, ob.a as u8, ob.b as u8, ob.hdr)
    }
}

impl Engine for BencEngine {
    fn reset(&mut self) {
        self.drop_sess();
    }

    fn exec(&mut self, op: &str, o: &mut Oracle) -> String {
        let t: Vec<&str> = op.split(' ').collect();
        if t.len() < 2 || t[0] != "benc" {
            return "bad-op".into();
        }
        match t[1] {
            "new" | "newlegacy" => self.op_new(&t[2..], o),
            "read" | "readall" => {
                if t.len() != 2 {
                    return "bad-op".into();
                }
                if self.s.is_none() {
                    return "no-session".into();
                }
                if self.s.as_ref().unwrap().dead {
                    return "dead".into();
                }
                let all = t[1] == "readall";
                let mut out: Vec<String> = Vec::new();
                loop {
                    match self.next_pkt(o) {
                        Err(_) => {
                            out.push("PANIC".into());
                            break;
                        }
                        Ok(None) => {
                            out.push("none".into());
                            self.s.as_mut().unwrap().ended = true;
                            break;
                        }
                        Ok(Some(ob)) => {
                            out.push(self.fmt_pkt(&ob));
                            if !all {
                                break;
                            }
                            if out.len() > 200_000 {
                                out.push("TOO-MANY".into());
                                self.s.as_mut().unwrap().dead = true;
                                break;
                            }
                        }
                    }
                }
                out.join(" ")
            }
            "remove" => match self.s.as_mut() {
                None => "no-session".into(),
                Some(s) => {
                    let r = s.sender.remove_object(s.toi);
                    if r {
                        s.removed = true;
                    }
                    format!("{}", r)
                }
            },
            "tick" => match self.s.as_mut() {
                None => "no-session".into(),
                Some(s) => {
                    s.now += Duration::from_secs(10);
                    s.ticked = true;
                    s.ended = false;
                    "ok".into()
                }
            },
            "close" => match self.s.as_mut() {
                None => "no-session".into(),
                Some(s) => {
                    let d = s.sender.read_close_session(s.now);
                    match rfcdec::decode(&d) {
                        None => {
                            o.fail("undecodable", "close-session packet not decodable");
                            "undecodable".into()
                        }
                        Some(dec) => {
                            if !dec.close_session {
                                o.fail("close-session-no-a", "read_close_session packet without the A flag");
                            }
                            format!("close {} {} {} {}", dec.toi, dec.close_session as u8, dec.close_object as u8, dec.payload.len())
                        }
                    }
                }
            },
            _ => "bad-op".into(),
        }
    }

    fn end_case(&mut self, o: &mut Oracle) {
        if let Some(s) = self.s.as_ref() {
            oracle(s, o);
        }
        self.drop_sess();
    }
}

// ------------------------------------------------------------------------------------------------
// The oracle: C08's clauses evaluated on the decoded packet stream of the real sender.

fn oracle(s: &Sess, o: &mut Oracle) {
    let tr = &s.trace;
    let l = s.te.len() as u64;
    let part = &s.part;
    let ctxs = format!(
        "[{} E={} B-part T={} N={} parity={} window={} maxtc={} carousel={} L={}]",
        s.scheme, s.e, part.t, part.n, s.p, s.win, s.maxtc, s.car, l
    );
    if s.dead {
        // D23 (finding): raptor_code refuses blocks of 2 or 3 source symbols
        let raptor_small = s.scheme == "raptor" && (0..part.n).any(|sbn| part.k(sbn) == 2 || part.k(sbn) == 3);
        let cls = if s.win == 0 { "interleave-blocks-0" } else if raptor_small { "raptor-k<4" } else { "sender-panic" };
        o.fail(cls, &format!("Sender::read panicked {}", ctxs));
        return;
    }
    // split into transfers: a transfer starts at each occurrence of (SBN 0, ESI 0)
    let mut transfers: Vec<Vec<(usize, &Obs)>> = Vec::new();
    for (i, p) in tr.iter().enumerate() {
        if (p.sbn == 0 && p.esi == 0) || transfers.is_empty() {
            if !(p.sbn == 0 && p.esi == 0) {
                o.fail("first-not-00", &format!("first object packet is ({},{}) not (0,0) {}", p.sbn, p.esi, ctxs));
            }
            transfers.push(Vec::new());
        }
        transfers.last_mut().unwrap().push((i, p));
    }
    // B flag: only on the final packet of the final transfer / the single packet after removal / the empty object
    for (i, p) in tr.iter().enumerate() {
        if p.a {
            o.fail("a-flag-in-read", &format!("A flag on object packet #{} {}", i, ctxs));
        }
        if !p.b {
            continue;
        }
        if l == 0 && p.payload.is_empty() && p.sbn == 0 && p.esi == 0 {
            // the lone packet that represents an empty object (it is a transfer of its own)
            let lone = transfers.iter().any(|t| t.len() == 1 && t[0].0 == i);
            if lone {
                continue;
            }
        }
        let is_last_of_stream = i + 1 == tr.len();
        if p.after_remove {
            // the single forced-stop packet: nothing may follow it
            if !is_last_of_stream {
                o.fail("b-flag-not-last", &format!("B on packet #{} of {} after removal but further packets follow {}", i, tr.len(), ctxs));
            }
            continue;
        }
        if !is_last_of_stream {
            o.fail("b-flag-not-last", &format!("B on packet #{} of {} (sbn {}, esi {}) but further packets follow {}", i, tr.len(), p.sbn, p.esi, ctxs));
        } else if s.car {
            o.fail("b-flag-carousel", &format!("B on packet #{} of a carousel object that was not removed {}", i, ctxs));
        } else if transfers.len() as u64 != s.maxtc && !s.fault {
            // (with a source fault a transfer may have no packet at all: it is not visible in the stream)
            o.fail("b-flag-not-final-transfer", &format!("B in transfer {} of {} {}", transfers.len(), s.maxtc, ctxs));
        }
    }
    let ntr = transfers.len();
    let mut once_used = false;
    for (ti, t) in transfers.iter().enumerate() {
        let mut once_used_next = once_used;
        // a transfer is `complete` unless the stream was cut in it by a removal (forced stop) or the case stopped reading
        let cut = (ti + 1 == ntr) && (!s.ended || t.iter().any(|(_, p)| p.after_remove && p.b));
        let cut = cut || (ti + 1 == ntr && s.removed && t.last().map(|(_, p)| p.b && p.after_remove).unwrap_or(false));
        let mut seen: std::collections::BTreeMap<(u32, u32), u32> = Default::default();
        let mut last_esi: std::collections::BTreeMap<u32, u32> = Default::default();
        let mut first_idx: std::collections::BTreeMap<u32, usize> = Default::default();
        let mut last_idx: std::collections::BTreeMap<u32, usize> = Default::default();
        let mut nrep: std::collections::BTreeMap<u32, u64> = Default::default();
        let mut open_order: Vec<u32> = Vec::new();
        for (j, (_, p)) in t.iter().enumerate() {
            if l == 0 {
                // no source block exists: only the flag rules above and the repair bound below apply
                *nrep.entry(p.sbn).or_insert(0) += if p.payload.is_empty() && t.len() == 1 { 0 } else { 1 };
                continue;
            }
            if p.sbn as u64 >= part.n {
                o.fail("sbn-out-of-range", &format!("SBN {} >= N {} {}", p.sbn, part.n, ctxs));
                continue;
            }
            *seen.entry((p.sbn, p.esi)).or_insert(0) += 1;
            if let Some(prev) = last_esi.get(&p.sbn) {
                if *prev >= p.esi {
                    o.fail("esi-not-increasing", &format!("block {}: ESI {} after {} (transfer {}) {}", p.sbn, p.esi, prev, ti, ctxs));
                }
            }
            last_esi.insert(p.sbn, p.esi);
            if !first_idx.contains_key(&p.sbn) {
                first_idx.insert(p.sbn, j);
                open_order.push(p.sbn);
            }
            last_idx.insert(p.sbn, j);
            let k = part.k(p.sbn as u64);
            if (p.esi as u64) < k {
                // source symbol: payload = E-byte slice of the transfer-encoded object at the RFC offset
                let off = ((part.first(p.sbn as u64) + p.esi as u64) * s.e) as usize;
                let end = (off + s.e as usize).min(s.te.len());
                let want = &s.te[off.min(s.te.len())..end];
                let ok_short = p.payload == want;
                let ok_padded = p.payload.len() == s.e as usize && &p.payload[..want.len()] == want && p.payload[want.len()..].iter().all(|x| *x == 0);
                if !(ok_short || ok_padded) {
                    // D22 (finding): Raptor cuts a block whose length is not a multiple of E (the last one) into
                    // semi-equal symbols
                    // (finding benc-2): the class is ONLY the exact mechanism - the payload is the piece raptor_code's
                    // own partition (raptor-code partition.rs: n bytes into k semi-equal pieces, `n - floor(n/k)*k`
                    // long ones of ceil(n/k) bytes first, then floor(n/k)-byte ones) cuts at this ESI; any other
                    // wrong bytes are the generic class, a violation
                    let cls = if s.scheme == "raptor" && raptor_piece(&s.te, part.first(p.sbn as u64) * s.e, k, s.e, p.esi as u64) == Some(&p.payload[..]) {
                        "raptor-symbol-split-unaligned-block"
                    } else {
                        "payload-not-slice"
                    };
                    o.fail(cls, &format!(
                        "source symbol ({},{}) payload {} bytes is not object[{}..{}] (short or zero-padded to E) (transfer {}) {}",
                        p.sbn, p.esi, p.payload.len(), off, end, ti, ctxs
                    ));
                }
            } else {
                *nrep.entry(p.sbn).or_insert(0) += 1;
            }
        }
        for ((sbn, esi), c) in &seen {
            if *c > 1 {
                o.fail("symbol-duplicated", &format!("({},{}) sent {} times in transfer {} {}", sbn, esi, c, ti, ctxs));
            }
        }
        for (sbn, c) in &nrep {
            if *c > s.p {
                o.fail("too-many-repair", &format!("block {}: {} repair symbols > parity {} (transfer {}) {}", sbn, c, s.p, ti, ctxs));
            }
        }
        // blocks opened in increasing SBN, at most max(1, window) open at once
        for w in open_order.windows(2) {
            if w[0] >= w[1] {
                o.fail("blocks-not-opened-in-order", &format!("block {} first seen after block {} (transfer {}) {}", w[1], w[0], ti, ctxs));
            }
        }
        for j in 0..t.len() {
            let open = first_idx.iter().filter(|(sbn, f)| **f <= j && last_idx[*sbn] >= j).count() as u64;
            if open > s.win.max(1) {
                o.fail("window-exceeded", &format!("{} blocks open at packet {} of transfer {} > window {} {}", open, j, ti, s.win, ctxs));
                break;
            }
        }
        // a permanent source fault: completeness is not evaluated; a transient one: the FIRST incomplete transfer is excused
        let excused = s.fault && (!s.fault_once || !once_used);
        let complete_here = (0..part.n).all(|sbn| (0..part.k(sbn)).all(|esi| seen.contains_key(&(sbn as u32, esi as u32))));
        if s.fault_once && !complete_here && !cut {
            once_used_next = true;
        }
        if !cut && excused && !complete_here && l > 0 {
            // OBSERVATION benc-6, not a finding and not a violation (a read() that fails is outside the quantifier of
            // C08/C20): the transfer a failing read interrupts goes out truncated - the blocks read so far, no B
            let nmiss = (0..part.n).map(|sbn| (0..part.k(sbn)).filter(|esi| !seen.contains_key(&(sbn as u32, *esi as u32))).count() as u64).sum::<u64>();
            o.fail("source-fault-truncates-transfer", &format!(
                "transfer {} ends after {} packets with {} source symbols never sent, B on its last packet: {} {}",
                ti, t.len(), nmiss, t.last().map(|(_, p)| p.b).unwrap_or(false), ctxs
            ));
        }
        if !cut && (!excused || complete_here) {
            // every source symbol exactly once
            let mut missing = 0u64;
            let mut first_missing = None;
            for sbn in 0..part.n {
                for esi in 0..part.k(sbn) {
                    if !seen.contains_key(&(sbn as u32, esi as u32)) {
                        missing += 1;
                        if first_missing.is_none() {
                            first_missing = Some((sbn, esi));
                        }
                    }
                }
            }
            if missing > 0 {
                // D23 (finding): a Raptor block of 2 or 3 symbols cannot be created, the transfer stops there
                let raptor_small = s.scheme == "raptor" && (0..part.n).any(|sbn| part.k(sbn) == 2 || part.k(sbn) == 3);
                o.fail(if raptor_small { "raptor-k<4" } else { "source-missing" }, &format!("{} source symbols never sent in complete transfer {} (first {:?}) {}", missing, ti, first_missing, ctxs));
            } else {
                // an RFC-only receiver: concatenate source payloads in (SBN, ESI) order, trim to L
                let mut cat: Vec<u8> = Vec::with_capacity(s.te.len());
                let mut by: std::collections::BTreeMap<(u32, u32), &Vec<u8>> = Default::default();
                for (_, p) in t.iter() {
                    if (p.esi as u64) < part.k(p.sbn as u64) {
                        by.entry((p.sbn, p.esi)).or_insert(&p.payload);
                    }
                }
                for (_, v) in by {
                    cat.extend_from_slice(v);
                }
                cat.truncate(s.te.len());
                if cat != s.te {
                    // no exemption for Raptor: its semi-equal pieces are contiguous and unpadded, so their
                    // concatenation is the block as well
                    o.fail("reassembly-differs", &format!("source payloads in (SBN,ESI) order trimmed to L differ from the transfer-encoded object (transfer {}) {}", ti, ctxs));
                } else if s.cenc != Cenc::Null {
                    match decompress(&cat, s.cenc) {
                        Some(x) if x == s.obj => {}
                        _ => o.fail("cenc-content-differs", &format!("decoding the reassembled transfer bytes does not give the object {}", ctxs)),
                    }
                }
            }
        }
        once_used = once_used_next;
    }
    // number of transfers: never more than max_transfer_count without carousel
    // (max_transfer_count = 0 sends one transfer without B: transfer counting is C12's clause, not checked here)
    if !s.car && !s.ticked && s.maxtc >= 1 && (ntr as u64) > s.maxtc {
        o.fail("too-many-transfers", &format!("{} transfers > max_transfer_count {} {}", ntr, s.maxtc, ctxs));
    }
}

// ------------------------------------------------------------------------------------------------
// generator

#[derive(Clone)]
struct Cfg {
    scheme: &'static str,
    e: u64,
    b: u64,
    p: u64,
    win: u64,
    maxtc: u64,
    allow: bool,
    car: bool,
    cenc: &'static str,
    src: String,
    seed: u64,
    len: u64,
}

impl Cfg {
    fn op(&self) -> String {
        let te = if self.cenc != "null" && self.src == "buf" {
            let obj = gen_bytes(self.seed, self.len as usize);
            let c = parse_cenc(self.cenc).unwrap();
            hex(&flute::sender::compress::compress_buffer(&obj, c).unwrap())
        } else {
            "=".to_string()
        };
        format!(
            "benc new {} {} {} {} {} {} {} {} {} {} g:{}:{} {}",
            self.scheme, self.e, self.b, self.p, self.win, self.maxtc, self.allow as u8, self.car as u8, self.cenc, self.src, self.seed, self.len, te
        )
    }
    fn key(&self) -> String {
        format!("{} {} {} {} {} {} {} {} {} {} {}", self.scheme, self.e, self.b, self.p, self.win, self.maxtc, self.allow, self.car, self.cenc, self.src, self.len)
    }
}

/// the object-size grid of DESIGN §3 for (E, B)
fn size_grid(e: u64, b: u64) -> Vec<(u64, &'static str)> {
    let mut v = vec![
        (0, "0"),
        (1, "1"),
        (e.saturating_sub(1), "E-1"),
        (e, "E"),
        (e + 1, "E+1"),
        (2 * e, "2E"),
        (3 * e + e / 2, "3.5E"),
        ((b * e).saturating_sub(1), "BE-1"),
        (b * e, "BE"),
        (b * e + 1, "BE+1"),
        ((b + 1) * e, "(B+1)E a_large/a_small"),
        (2 * b * e, "2BE"),
        ((2 * b + 1) * e - e / 2, "3 unequal blocks"),
        ((3 * b - 1) * e + 1, "3 blocks"),
        (4 * e, "4E"),
        (5 * e, "5E"),
        (7 * e + 1, "7E+1"),
    ];
    v.dedup_by_key(|x| x.0);
    v
}

fn count_pkts(obs: &str) -> usize {
    obs.split(' ').filter(|x| x.contains(',')).count()
}

fn one_case(ctx: &mut Ctx, eng: &mut dyn Engine, id: &str, c: &Cfg, bucket: &str) -> String {
    ctx.case(id);
    eng.reset();
    let r = ctx.step(eng, &c.op());
    let mut out = String::new();
    if r.starts_with("ok") {
        out = ctx.step(eng, "benc readall");
        if c.src.contains('!') && !c.src.ends_with('i') && !c.src.ends_with('j') {
            // a transfer cut by a source fault may end a `read` early: keep reading, the later transfers must be whole
            for _ in 0..c.maxtc + 1 {
                out.push(' ');
                out.push_str(&ctx.step(eng, "benc readall"));
            }
        }
        let part = Part::new(c.len, c.e, c.b);
        if part.n >= 2 && c.win >= 2 && (c.p > 0 || c.scheme == "nocode") {
            ctx.nontrivial(&c.key());
        }
        ctx.count(&format!("blocks={}", if part.n >= 3 { "3+" } else if part.n == 2 { "2" } else if part.n == 1 { "1" } else { "0" }));
    } else {
        ctx.count(&format!("new:{}", r));
    }
    ctx.count(&format!("scheme={}", c.scheme));
    ctx.count(bucket);
    ctx.end_case(eng);
    out
}

pub fn run(ctx: &mut Ctx, eng: &mut dyn Engine) {
    let mut rng = Rng::new(ctx.seed);
    let thorough = ctx.tier_thorough;
    ctx.rule = "real flute::sender::Sender (FullFDT, one object carrying its own OTI) read until None, every datagram decoded by the \
        harness's own RFC 5651/5445/5510/6330/5053 decoder; per object packet (SBN, ESI, length+FNV-64 of source payloads, source block length \
        of FEC ID 129, A, B) compared with the Lean model; grid sizes{0,1,E-1,E,E+1,kE,BE±1,(B+1)E,2BE,3 unequal blocks,...} x \
        {nocode,rs28,rs28us,raptorq,raptor} x E{1,2,3,4,16,1400} x B{1,2,3,5,64} x parity{0,1,2,5} x window{1,2,3,4} x max_transfer_count{1,2,3}; \
        remove_object at every packet index for small objects (allow_immediate on/off); carousel with clock ticks; content encodings; \
        C20: the same bytes through Buffer, Cursor, chunked Read+Seek (fixed 1/3/7 and seeded random short reads), File, BufReader<File>, \
        packet sequences compared pairwise and with the model. non-trivial = at least 2 blocks, window >= 2 and repair symbols or No-Code \
        (distinct by configuration), or a stream source with short reads over >= 2 blocks"
        .to_string();
    let schemes = ["nocode", "rs28", "rs28us", "raptorq", "raptor"];
    let es = [1u64, 2, 3, 4, 16, 1400];
    let bs = [1u64, 2, 3, 5, 64];
    let ps = [0u64, 1, 2, 5];
    let wins = [1u64, 2, 3, 4];
    let tcs = [1u64, 2, 3];

    // 0. the replayed witnesses of DESIGN §6 and their neighbours ------------------------------------
    let base = Cfg { scheme: "rs28", e: 4, b: 3, p: 2, win: 2, maxtc: 1, allow: false, car: false, cenc: "null", src: "buf".into(), seed: 1, len: 20 };
    one_case(ctx, eng, "w-d3", &base, "witness");
    one_case(ctx, eng, "w-d3-rq", &Cfg { scheme: "raptorq", len: 21, ..base.clone() }, "witness");
    one_case(ctx, eng, "w-d8", &Cfg { scheme: "nocode", b: 4, p: 0, win: 1, src: "chk:f5".into(), seed: 2, len: 40, ..base.clone() }, "witness");
    one_case(ctx, eng, "w-d8-bufrd", &Cfg { scheme: "nocode", e: 16, b: 64, p: 0, win: 2, src: "bufrd".into(), seed: 3, len: 20000, ..base.clone() }, "witness");
    one_case(ctx, eng, "w-d21", &Cfg { p: 0, ..base.clone() }, "witness");
    one_case(ctx, eng, "w-d25", &Cfg { scheme: "rs28us", e: 1, b: 252, p: 5, win: 1, len: 252, ..base.clone() }, "witness");
    one_case(ctx, eng, "w-d18", &Cfg { scheme: "nocode", p: 0, cenc: "gzip", src: "cur".into(), len: 50, ..base.clone() }, "witness");
    one_case(ctx, eng, "w-d22", &Cfg { scheme: "raptor", b: 8, len: 21, ..base.clone() }, "witness");
    // interleave_blocks = 0 (no block is ever opened; also hits the FDT's own encoder) and max_transfer_count = 0
    for (i, scheme) in ["nocode", "rs28", "raptorq"].iter().enumerate() {
        one_case(ctx, eng, &format!("w-win0-{}", i), &Cfg { scheme, win: 0, ..base.clone() }, "window0");
        one_case(ctx, eng, &format!("w-win0-empty-{}", i), &Cfg { scheme, win: 0, len: 0, ..base.clone() }, "window0");
        one_case(ctx, eng, &format!("w-win0-stream-{}", i), &Cfg { scheme, win: 0, src: "chk:f3".into(), ..base.clone() }, "window0");
        one_case(ctx, eng, &format!("w-maxtc0-{}", i), &Cfg { scheme, maxtc: 0, ..base.clone() }, "maxtc0");
        one_case(ctx, eng, &format!("w-maxtc0-car-{}", i), &Cfg { scheme, maxtc: 0, car: true, src: "cur".into(), ..base.clone() }, "maxtc0");
    }
    one_case(ctx, eng, "w-d23", &Cfg { scheme: "raptor", len: 20, ..base.clone() }, "witness");

    // 0b. field-width boundaries: many blocks (SBN >= 256), long blocks (ESI >= 256), widest RS blocks, largest symbols,
    //     objects at / just above the scheme's maximum transfer length -------------------------------------------------
    let bcases: Vec<(&'static str, u64, u64, u64, u64, u64)> = vec![
        // scheme, E, B, parity, window, L
        ("nocode", 1, 1, 0, 3, 700),
        ("nocode", 1, 3000, 0, 2, 3000),
        ("nocode", 2, 300, 0, 2, 1500),
        ("nocode", 65535, 2, 0, 2, 140000),
        ("rs28", 1, 1, 1, 4, 255),
        ("rs28", 1, 1, 1, 4, 256),
        ("rs28", 1, 250, 5, 2, 600),
        ("rs28", 3, 254, 1, 1, 800),
        ("rs28us", 2, 1, 2, 3, 1200),
        ("rs28us", 1, 251, 5, 2, 600),
        ("rs28us", 1, 252, 5, 2, 252),
        ("rs28us", 1, 400, 5, 2, 250),
        ("raptorq", 1, 1, 1, 2, 255),
        ("raptorq", 1, 1, 1, 2, 256),
        ("raptorq", 4, 300, 3, 2, 2400),
        ("raptor", 1, 1, 1, 2, 300),
        ("raptor", 4, 300, 2, 2, 2400),
        // scheme K maxima: add_object refuses larger source blocks (/repo 29615e2)
        ("raptor", 1, 8193, 1, 1, 8193),
        ("raptorq", 1, 56404, 1, 1, 56404),
    ];
    for (i, (scheme, e, b, p, win, len)) in bcases.iter().enumerate() {
        for src in ["buf".to_string(), format!("chk:f{}", 7.max(*len / 40))] {
            let c = Cfg { scheme, e: *e, b: *b, p: *p, win: *win, maxtc: 1 + (i as u64 % 2), allow: false, car: false, cenc: "null", src: src.clone(), seed: 500 + i as u64, len: *len };
            one_case(ctx, eng, &format!("bound-{}-{}", i, src.split(':').next().unwrap_or("")), &c, "boundary");
        }
    }

    // 1. the grid ------------------------------------------------------------------------------------
    let mut n = 0u64;
    for scheme in schemes {
        for e in es {
            for b in bs {
                for p in ps {
                    for win in wins {
                        for maxtc in tcs {
                            for (len, tag) in size_grid(e, b) {
                                n += 1;
                                // quick: a seeded 1/12 sample of the product; thorough: all of it except that the
                                // large-symbol corner (E = 1400, B = 64) is sampled 1/6
                                let big = e * b >= 1400 * 64;
                                let keep = if thorough { !big || rng.below(6) == 0 } else { rng.below(if big { 150 } else { 12 }) == 0 };
                                if !keep {
                                    continue;
                                }
                                if scheme == "rs28" && b + p > 255 {
                                    continue;
                                }
                                let c = Cfg { scheme, e, b, p, win, maxtc, allow: false, car: false, cenc: "null", src: "buf".into(), seed: n, len };
                                let out = one_case(ctx, eng, &format!("grid-{}", n), &c, &format!("size={}", tag));
                                if n % 5000 == 1 {
                                    ctx.sample(format!("{} -> {} packets", c.op(), count_pkts(&out)));
                                }
                            }
                        }
                    }
                }
            }
        }
    }

    // 2. removal at every packet index of small objects -------------------------------------------------
    let mut rn = 0u64;
    for scheme in ["nocode", "rs28", "raptorq", "rs28us"] {
        for (e, b, p, len) in [(4u64, 3u64, 2u64, 20u64), (2, 2, 1, 7), (3, 5, 1, 16), (1, 1, 1, 3), (4, 3, 2, 0), (4, 2, 5, 9)] {
            for win in [1u64, 2, 3] {
                for maxtc in [1u64, 2, 3] {
                    for allow in [false, true] {
                        for car in [false, true] {
                            if car && maxtc == 3 {
                                continue;
                            }
                            if !thorough && rng.below(3) != 0 {
                                continue;
                            }
                            let rsrc: String = match rn % 4 { 0 => "chk:f1".into(), 1 => "cur".into(), _ => "buf".into() };
                            let c = Cfg { scheme, e, b, p, win, maxtc, allow, car, cenc: "null", src: rsrc, seed: 7, len };
                            // how many packets without removal?
                            rn += 1;
                            let total = count_pkts(&one_case(ctx, eng, &format!("rm-base-{}", rn), &c, "removal-base"));
                            for at in 0..=total + 1 {
                                rn += 1;
                                ctx.case(&format!("rm-{}", rn));
                                eng.reset();
                                if !ctx.step(eng, &c.op()).starts_with("ok") {
                                    ctx.end_case(eng);
                                    break;
                                }
                                for _ in 0..at {
                                    ctx.step(eng, "benc read");
                                }
                                ctx.step(eng, "benc remove");
                                ctx.step(eng, "benc readall");
                                ctx.step(eng, "benc remove");
                                ctx.step(eng, "benc readall");
                                ctx.count("removal");
                                ctx.nontrivial(&format!("rm {} at {}", c.key(), at));
                                ctx.end_case(eng);
                            }
                        }
                    }
                }
            }
        }
    }

    // 3. carousel with clock ticks, close-session packet --------------------------------------------------
    let mut cn = 0u64;
    for scheme in ["nocode", "rs28", "raptorq"] {
        for maxtc in [1u64, 2] {
            for win in [1u64, 2] {
                for len in [0u64, 5, 20, 33] {
                    cn += 1;
                    let c = Cfg { scheme, e: 4, b: 3, p: 2, win, maxtc, allow: false, car: true, cenc: "null", src: if cn % 2 == 0 { "buf".into() } else { "chk:f3".into() }, seed: cn, len };
                    ctx.case(&format!("carousel-{}", cn));
                    eng.reset();
                    if ctx.step(eng, &c.op()).starts_with("ok") {
                        ctx.step(eng, "benc readall");
                        ctx.step(eng, "benc readall");
                        ctx.step(eng, "benc tick");
                        ctx.step(eng, "benc read");
                        ctx.step(eng, "benc close");
                        ctx.step(eng, "benc readall");
                        ctx.step(eng, "benc tick");
                        ctx.step(eng, "benc readall");
                        ctx.step(eng, "benc remove");
                        ctx.step(eng, "benc tick");
                        ctx.step(eng, "benc readall");
                        ctx.step(eng, "benc close");
                    }
                    ctx.count("carousel");
                    ctx.end_case(eng);
                }
            }
        }
    }

    // 4. content encodings (buffer source): payloads slice the transfer-encoded bytes ----------------------
    let mut zn = 0u64;
    for cenc in ["zlib", "deflate", "gzip"] {
        for scheme in ["nocode", "rs28", "raptorq"] {
            for (e, b) in [(4u64, 3u64), (16, 5), (3, 64)] {
                for len in [0u64, 1, 50, 300, 2000] {
                    zn += 1;
                    let c = Cfg { scheme, e, b, p: 2, win: 2, maxtc: 1 + zn % 2, allow: false, car: false, cenc, src: "buf".into(), seed: zn, len };
                    one_case(ctx, eng, &format!("cenc-{}", zn), &c, "cenc");
                }
            }
        }
    }
    // stream source + content encoding (D18)
    for cenc in ["zlib", "gzip"] {
        for src in ["cur", "file", "chk:f3"] {
            zn += 1;
            let c = Cfg { scheme: "nocode", e: 4, b: 3, p: 0, win: 2, maxtc: 1, allow: false, car: false, cenc, src: src.into(), seed: zn, len: 40 };
            one_case(ctx, eng, &format!("cenc-stream-{}", zn), &c, "cenc-stream");
        }
    }

    // 4b. source faults: the k-th read() of the stream fails (and every later one) ----------------------------------------
    let mut fnn = 0u64;
    for scheme in ["nocode", "rs28", "raptorq"] {
        for (e, b, p, len, chunk) in [(4u64, 4u64, 2u64, 40u64, 5u64), (2, 2, 1, 7, 1), (4, 3, 2, 20, 3), (16, 5, 1, 200, 7)] {
            for win in [1u64, 2, 3] {
                for maxtc in [1u64, 2] {
                    let reads = len / chunk + 4;
                    for k in 0..=reads {
                        if !thorough && k > 3 && rng.below(3) != 0 {
                            continue;
                        }
                        // permanent hard error, transient hard error (TimedOut once), Interrupted once / three times - at read index k
                        for kind in ["", "t", "i", "j"] {
                            if !thorough && kind != "" && rng.below(2) != 0 {
                                continue;
                            }
                            fnn += 1;
                            let tc = if kind == "" { maxtc } else { maxtc + 1 };
                            let c = Cfg { scheme, e, b, p, win, maxtc: tc, allow: false, car: fnn % 5 == 0, cenc: "null", src: format!("chk:f{}!{}{}", chunk, k, kind), seed: 40 + fnn, len };
                            one_case(ctx, eng, &format!("fault-{}", fnn), &c, if kind == "" { "source-fault" } else { "source-fault-transient" });
                            ctx.nontrivial(&c.key());
                        }
                    }
                }
            }
        }
    }

    for (e, b, len, chunk, maxtc) in [(16u64, 4u64, 165u64, 24u64, 2u64), (100, 10, 5000, 700, 2), (100, 10, 5000, 2300, 3), (8, 3, 100, 5, 2)] {
        let reads = len / chunk + 3;
        for k in 0..=(2 * reads) {
            for kind in ["t", "i", "j"] {
                fnn += 1;
                let c = Cfg { scheme: "nocode", e, b, p: 0, win: 1 + fnn % 3, maxtc, allow: false, car: false, cenc: "null", src: format!("chk:f{}!{}{}", chunk, k, kind), seed: 90 + fnn, len };
                one_case(ctx, eng, &format!("fault-shape-{}", fnn), &c, "source-fault-transient");
            }
        }
    }

    // 5. C20: the same bytes through every kind of source ---------------------------------------------------
    let mut sn = 0u64;
    let nsrc = if thorough { 600 } else { 120 };
    for i in 0..nsrc {
        let scheme = *rng.pick(&["nocode", "nocode", "rs28", "rs28us", "raptorq", "raptor"]);
        let e = *rng.pick(&[1u64, 2, 3, 4, 16, 1400]);
        let b = *rng.pick(&[1u64, 2, 3, 4, 5, 64]);
        let p = *rng.pick(&[1u64, 2, 5]);
        let win = *rng.pick(&wins);
        let maxtc = *rng.pick(&tcs);
        let grid = size_grid(e, b);
        let mut len = if i % 4 == 3 { rng.range(0, (3 * b * e).min(30000)) } else { rng.pick(&grid).0 };
        if i == 0 {
            len = 40;
        }
        // fixed 1-byte reads on very large objects are slow for the model's schedule list: bound the object
        let small = len <= 6000;
        let mut srcs: Vec<String> = vec!["buf".into(), "cur".into(), "file".into(), "bufrd".into(), "chk:f7".into(), "ffile-ram".into(), "ffile-stream".into()];
        // streams handed over partly read (before creation, MD5 off) or moved between creation and the first transfer
        let k1 = rng.range(1, len.max(1));
        let k2 = rng.range(0, len + 3);
        srcs.push(format!("cur@pre{}", k1));
        srcs.push(format!("file@pre{}", k2));
        srcs.push(format!("bufrd@post{}", k1));
        srcs.push(format!("cur@post{}", k2));
        if small {
            srcs.push("chk:f1".into());
            srcs.push("chk:f3".into());
            srcs.push(format!("chk:r{}.{}", rng.below(1 << 30), *rng.pick(&[2u64, 5, 17, 100, 5000])));
            srcs.push(format!("chk:r{}.{}", rng.below(1 << 30), (e * b).max(2)));
            srcs.push(format!("chk:l{}.{}.{}.1", rng.range(1, 9), rng.range(1, 9), rng.range(1, 40)));
            srcs.push(format!("chk:f3@pre{}", k1));
            srcs.push(format!("chk:f3!{}i", rng.range(0, len / 3 + 2)));
            srcs.push(format!("chk:f7!{}j", rng.range(0, len / 7 + 2)));
            srcs.push(format!("chk:r{}.{}@post{}", rng.below(1 << 30), 9, k1));
        } else {
            srcs.retain(|x| x != "chk:f7");
            srcs.push(format!("chk:f{}", (e * b - 1).max(len / 40)));
            srcs.push(format!("chk:f{}", 8191.max(len / 40)));
            srcs.push(format!("chk:l{}.{}.{}.1.{}", rng.range(1, 9), rng.range(1, 9000), rng.range(1, 40), rng.range(1, 100000)));
        }
        let mut reference: Option<String> = None;
        let mut reference_raw: Option<Vec<u64>> = None;
        for src in srcs {
            sn += 1;
            let c = Cfg { scheme, e, b, p, win, maxtc, allow: false, car: false, cenc: "null", src: src.clone(), seed: 1000 + i, len };
            let out = one_case(ctx, eng, &format!("src-{}", sn), &c, &format!("source={}", src.split(':').next().unwrap_or("")));
            let part = Part::new(len, e, b);
            if src.starts_with("chk:") && part.n >= 2 {
                ctx.nontrivial(&c.key());
            }
            let raw = RAW.lock().unwrap().clone();
            match &reference_raw {
                None => reference_raw = Some(raw),
                Some(r) => {
                    if *r != raw && reference.as_ref() == Some(&out) {
                        // same projection but the datagrams differ somewhere else (repair payloads, extensions, lengths)
                        ctx.case(&format!("src-{}-raw-vs-buffer", sn));
                        eng.reset();
                        ctx.step(eng, &c.op());
                        ctx.step(eng, "benc readall");
                        let cls = if len == 0 && (scheme == "raptorq" || scheme == "raptor") { "C20:empty-object-fec-buffer-vs-stream" } else { "C20:stream-ne-buffer-raw" };
                        ctx.oracle_fail(
                            cls,
                            &format!("datagrams (whole, FNV-64 each) from source `{}` differ from the buffer source for the same bytes although (SBN, ESI, source payload, flags) agree: {}", src, c.op()),
                        );
                        eng.reset();
                    }
                }
            }
            match &reference {
                None => reference = Some(out),
                Some(r) => {
                    if *r != out {
                        // C20's own oracle: packet sequences (timestamps are not part of the observation) must be equal
                        ctx.case(&format!("src-{}-vs-buffer", sn));
                        eng.reset();
                        ctx.step(eng, &c.op());
                        ctx.step(eng, "benc readall");
                        // D24 (finding): an empty object from a buffer is sent by RaptorQ/Raptor as `parity` repair packets of a
                        // block that does not exist, from a stream as the lone empty packet
                        let cls = if len == 0 && (scheme == "raptorq" || scheme == "raptor") { "C20:empty-object-fec-buffer-vs-stream" } else { "C20:stream-ne-buffer" };
                        ctx.oracle_fail(
                            cls,
                            &format!("packet sequence from source `{}` differs from the buffer source for the same bytes: {}", src, c.op()),
                        );
                        eng.reset();
                    }
                }
            }
            if i < 2 {
                ctx.sample(c.op());
            }
        }
    }
}

fn main() {
    harness_core::engine_main("benc", || Box::new(BencEngine::new()), run);
}
