//! Engine `sched`: drives the REAL `flute::sender::Sender` through its public API under a virtual
//! clock, decodes every datagram with flute's own ALC parser into (TOI, FDT instance id, SBN, ESI, B)
//! and evaluates the clauses of C11..C14 on that stream (oracle classes carry the property prefix).
use flute::core::alc::{parse_alc_pkt, parse_payload_id};
use flute::core::{Oti, UDPEndpoint};
use flute::sender::{
    CarouselRepeatMode, Config, Event, FDTPublishMode, ObjectDesc, PriorityQueue, Sender, Subscriber,
    TargetAcquisition, TransferConfig,
};
use harness_core::{guarded, Engine, Oracle};
use std::collections::{BTreeMap, BTreeSet};
use std::panic::AssertUnwindSafe;
use std::sync::{Arc, Mutex};
use std::time::{Duration, SystemTime, UNIX_EPOCH};

pub fn st(ns: u64) -> SystemTime {
    UNIX_EPOCH + Duration::from_nanos(ns)
}

/// durations of the op lines are nanoseconds in a u64; the largest value stands for `Duration::MAX`
/// (the model sees 2^64-1 ns: both are longer than any interval of the virtual clock)
pub fn dur(ns: u64) -> Duration {
    if ns == u64::MAX {
        Duration::MAX
    } else {
        Duration::from_nanos(ns)
    }
}

/// the pacing tick: exact integer quotient of the nanoseconds (/repo 9d73d78; it was `Duration::div_f64`). The Lean
/// driver computes the same value itself (`Sched.modelTicks`): the `toi:tick` tokens are informative only.
pub fn div_tick(dur_ns: u64, n: u64) -> u64 {
    dur_ns / n
}

struct Sub(Arc<Mutex<Vec<(bool, u64, u64)>>>);
impl Subscriber for Sub {
    fn on_sender_event(&self, evt: &Event, now: SystemTime) {
        let t = now.duration_since(UNIX_EPOCH).unwrap_or_default().as_nanos() as u64;
        let e = match evt {
            Event::StartTransfer(i) => (true, i.toi as u64, t),
            Event::StopTransfer(i) => (false, i.toi as u64, t),
        };
        self.0.lock().unwrap().push(e);
    }
}

#[derive(Clone, Debug)]
pub struct Removal {
    /// the object was in transfer when it was removed
    pub in_transfer: bool,
    /// `can_transfer_be_stopped` at removal time (fully sent once, or allow-immediate-stop)
    pub stoppable: bool,
    pub pkts_after: u64,
    pub starts_at_removal: u64,
}

#[derive(Clone, Debug)]
pub struct Obj {
    pub toi: u64,
    pub prio: u32,
    pub n_sym: u64,
    pub n_pk: u64,
    pub e: u16,
    pub bl: u32,
    pub maxc: u32,
    /// (is_interval, ns)
    pub car: Option<(bool, u64)>,
    pub target: Option<(char, u64)>,
    pub allow: bool,
    // ---- shadow bookkeeping derived from API calls, events and the wire only
    pub eff_start: Option<u64>,
    pub published_for_sure: bool,
    pub removed: Option<Removal>,
    pub gone: bool,
    pub in_transfer: bool,
    pub starts: u64,
    pub stops: u64,
    pub sent: u64,
    pub seen: BTreeSet<(u32, u32)>,
    pub opened: Vec<u32>,
    pub t_start: u64,
    pub tick: Option<u64>,
    pub tdur: u64,
    pub last_pkt: Option<u64>,
    pub prev_start: Option<u64>,
    pub prev_end_pkt: Option<u64>,
    pub trig_since: bool,
    pub wire_completed: u64,
    pub pkts_total: u64,
    pub forced_seen: bool,
    /// a packet carrying the close-object flag B was seen (non-empty object): no packet of this TOI may follow
    pub closed_seen: bool,
    /// fault schedule of the (stream) source: code of the n-th transfer attempt (0 = open fails, >= 1 = first read fails)
    pub faults: Vec<u64>,
    /// EMPTY object sent with a rateless codec from a buffer: one transfer = its `parity` repair packets (the op's
    /// nSym is that packet count; the model's "number of packets of one transfer" is an input)
    pub rateless_empty: bool,
}

impl Obj {
    pub fn wants_tick(&self) -> bool {
        matches!(self.target, Some(('d', _)) | Some(('t', _))) && self.n_sym != 0
    }
    pub fn burst(&self) -> u64 {
        self.maxc.max(1) as u64
    }
    /// no carousel and all transfers done
    pub fn finished(&self) -> bool {
        self.car.is_none() && self.stops >= self.burst()
    }
    /// completed attempts that were not scheduled to fail (for a buffer source: all of them)
    pub fn healthy_stops(&self) -> u64 {
        self.stops - self.stops.min(self.faults.len() as u64)
    }
}

#[derive(Default)]
struct FdtAsm {
    n: u64,
    syms: BTreeMap<u32, Vec<u8>>,
    complete: bool,
    tois: Vec<u64>,
    cur_sent: u64,
}

#[derive(Clone, Debug)]
pub enum Dec {
    None,
    Fdt { id: u32, esi: u32 },
    Pkt { toi: u64, sbn: u32, esi: u32, b: bool },
}

pub struct Cfg {
    pub full: bool,
    pub start_id: u32,
    pub il: u8,
    pub efdt: u16,
    pub fdt_dur: u64,
    /// default OTI can carry an FDT (false: Reed-Solomon GF(2^8) E=B=1, max transfer length 255 bytes)
    pub fits: bool,
    pub queues: BTreeMap<u32, u32>,
}

pub struct SchedEngine {
    sender: Option<Sender>,
    events: Arc<Mutex<Vec<(bool, u64, u64)>>>,
    pub cfg: Option<Cfg>,
    pub objs: BTreeMap<u64, Obj>,
    pub lens: BTreeMap<u64, u64>,
    dead: bool,
    fdts: BTreeMap<u32, FdtAsm>,
    /// observed number of packets per publication index
    pub fdt_tbl: BTreeMap<u32, u64>,
    announced: BTreeSet<u64>,
    /// ids of instances whose transmission has begun
    complete_ids: BTreeSet<u32>,
    /// a publication is known to be pending: no object packet until a NEW instance completes
    pending_new_fdt: bool,
    fdt_in_progress: Option<u32>,
    waitq: Vec<u64>,
    pub last_dec: Dec,
    pub obj_pkts: u64,
    pub reads_same_instant: (u64, u64),
    rr_last: BTreeMap<u64, BTreeSet<u64>>,
    pub nontrivial: BTreeSet<&'static str>,
    pub ticks_used: bool,
    pub publishes: u64,
    pub starts_total: u64,
}

impl SchedEngine {
    pub fn new() -> SchedEngine {
        SchedEngine {
            sender: None,
            events: Arc::new(Mutex::new(Vec::new())),
            cfg: None,
            objs: BTreeMap::new(),
            lens: BTreeMap::new(),
            dead: false,
            fdts: BTreeMap::new(),
            fdt_tbl: BTreeMap::new(),
            announced: BTreeSet::new(),
            complete_ids: BTreeSet::new(),
            pending_new_fdt: false,
            fdt_in_progress: None,
            waitq: Vec::new(),
            last_dec: Dec::None,
            obj_pkts: 0,
            reads_same_instant: (0, 0),
            rr_last: BTreeMap::new(),
            nontrivial: BTreeSet::new(),
            ticks_used: false,
            publishes: 0,
            starts_total: 0,
        }
    }

    /// the `toi:tick` table a `read` at `now` needs (every waiting paced object)
    pub fn ticks_for(&self, now: u64) -> String {
        let mut s = String::new();
        for o in self.objs.values() {
            if o.removed.is_some() || o.gone || !o.wants_tick() {
                continue;
            }
            s.push_str(&format!(" {}:{}", o.toi, self.tick_of(o, now)));
        }
        s
    }

    fn tick_of(&self, o: &Obj, now: u64) -> u64 {
        match o.target {
            Some(('d', d)) => div_tick(d, o.n_sym),
            Some(('t', t)) => div_tick(t.saturating_sub(now), o.n_sym),
            _ => 0,
        }
    }

    /// explicit measure bounding the number of consecutive non-empty reads at ONE instant (C12 read_terminates):
    /// remaining packets of the transfers in progress + (2 max(1,max_transfer_count) + 1) transfers per object
    /// still in the sender + two transfers of every FDT instance that exists or can still be published now
    pub fn mu(&self) -> u64 {
        let cfg = match self.cfg.as_ref() {
            Some(c) => c,
            None => return 0,
        };
        let mut m: u64 = 0;
        let mut future_starts: u64 = 0;
        let mut nobj: u64 = 0;
        for o in self.objs.values() {
            if o.gone && !o.in_transfer {
                continue;
            }
            nobj += 1;
            if o.in_transfer {
                m += o.n_pk.saturating_sub(o.sent);
            }
            if o.removed.is_none() {
                m += (2 * o.burst() + 1) * o.n_pk;
                future_starts += 2 * o.burst() + 1;
            }
        }
        let fdt_pk = (1500 + 600 * (self.objs.len() as u64 + nobj)) / (cfg.efdt.max(1) as u64) + 2;
        let pubs = self.publishes + self.starts_total + future_starts + 2;
        m + 2 * pubs * fdt_pk
    }

    pub fn fdt_table_line(&self) -> String {
        let max = self.fdt_tbl.keys().max().map(|m| *m + 1).unwrap_or(0);
        let mut s = String::from("sched fdtpkts");
        for k in 0..max {
            s.push_str(&format!(" {}", self.fdt_tbl.get(&k).copied().unwrap_or(1)));
        }
        s
    }

    pub fn slots(&self, prio: u32) -> u64 {
        self.cfg.as_ref().and_then(|c| c.queues.get(&prio)).map(|m| (*m).max(1) as u64).unwrap_or(0)
    }

    /// some object of queue `prio` still has a scheduled fault ahead (attempt index = completed attempts)
    fn fault_pending_in_queue(&self, prio: u32) -> bool {
        self.objs.values().any(|x| x.prio == prio && (x.stops as usize) < x.faults.len() && (x.in_transfer || (x.removed.is_none() && !x.gone)))
    }

    /// every transfer holding a slot of queue `prio` is paced and its next packet is not due yet at `now` (by the floor
    /// tick: `start + sent * tick > now`) - the registered head-of-line situation F23; a holder that is due, unpaced,
    /// finished or being stopped does not qualify (then the strict-priority / idle oracles judge the call)
    fn holders_surely_not_due(&self, prio: u32, now: u64) -> bool {
        self.objs.values().filter(|x| x.prio == prio && x.in_transfer).all(|x| {
            x.removed.is_none()
                && x.sent < x.n_pk
                && match x.tick {
                    Some(t) => (x.t_start as u128) + (x.sent as u128) * (t as u128) > now as u128,
                    None => false,
                }
        })
    }

    fn open_in_queue(&self, prio: u32) -> u64 {
        self.objs.values().filter(|o| o.prio == prio && o.in_transfer).count() as u64
    }

    /// sound under-approximation of "eligible by should_transfer_now" for a waiting object
    fn surely_eligible(&self, o: &Obj, now: u64) -> bool {
        if o.removed.is_some() || o.gone || o.in_transfer {
            return false;
        }
        // while an attempt of an object of THIS queue is still going to fail, "ready" objects of the queue may yield nothing
        // (the attempt fails and the slot gives the hand back for this call): the priority / idle oracles are off for
        // the queue until its last scheduled fault is consumed (the theorems assume fault-free sources)
        if self.fault_pending_in_queue(o.prio) {
            return false;
        }
        let full = self.cfg.as_ref().map(|c| c.full).unwrap_or(true);
        if full && !o.published_for_sure {
            return false;
        }
        if let Some(s) = o.eff_start {
            if now < s {
                return false;
            }
        }
        if o.car.is_none() {
            return o.stops < o.burst();
        }
        // carousel: inside a burst (count < max) it is eligible at once
        o.maxc >= 1 && o.stops % o.burst() != 0
            || o.starts == 0
    }

    /// object in a slot whose next packet is due at `now`
    fn surely_due(&self, o: &Obj, now: u64) -> bool {
        if !o.in_transfer || o.removed.is_some() || o.sent >= o.n_pk {
            return false;
        }
        if self.fault_pending_in_queue(o.prio) {
            return false;
        }
        match o.tick {
            None => true,
            // due FOR SURE only one ns per packet after the floor tick's due time: C14 fixes the tick up to the integer
            // rounding of target / n (floor, ceil and nearest all satisfy it); the exact due instant is compared with
            // the model (floor, /repo 9d73d78), not demanded by this oracle
            Some(t) => (o.t_start as u128) + (o.sent as u128) * ((t as u128) + 1) <= now as u128,
        }
    }

    fn exec_new(&mut self, t: &[&str]) -> String {
        // new <f|b> <d|i> <carNs> <fdtDurNs> <startId> <il> <efdt> <fits> <nq> (<prio> <mux>)*
        if t.len() < 10 {
            return "bad-op".into();
        }
        let n: Vec<u64> = t[3..].iter().filter_map(|x| x.parse().ok()).collect();
        if n.len() != t.len() - 3 || n.len() < 7 || n[5] > 1 || n.len() != 7 + 2 * n[6] as usize {
            return "bad-op".into();
        }
        let full = match t[1] {
            "f" => true,
            "b" => false,
            _ => return "bad-op".into(),
        };
        let car = match t[2] {
            "d" => CarouselRepeatMode::DelayBetweenTransfers(dur(n[0])),
            "i" => CarouselRepeatMode::IntervalBetweenStartTimes(dur(n[0])),
            _ => return "bad-op".into(),
        };
        let mut queues = BTreeMap::new();
        let mut pq = BTreeMap::new();
        for i in 0..n[6] as usize {
            queues.insert(n[7 + 2 * i] as u32, n[8 + 2 * i] as u32);
            pq.insert(n[7 + 2 * i] as u32, PriorityQueue::new(n[8 + 2 * i] as u32));
        }
        let fits = n[5] == 1;
        let config = Config {
            fdt_duration: dur(n[1]),
            fdt_carousel_mode: car,
            fdt_start_id: n[2] as u32,
            fdt_publish_mode: if full { FDTPublishMode::FullFDT } else { FDTPublishMode::ObjectsBeingTransferred },
            priority_queues: pq,
            interleave_blocks: n[3] as u8,
            toi_initial_value: Some(1),
            ..Default::default()
        };
        let oti = if fits {
            Oti::new_no_code(n[4] as u16, 1024)
        } else {
            // max_transfer_length = E * B * 255 = 255 bytes: no FDT instance fits, Fdt::publish fails
            match Oti::new_reed_solomon_rs28(1, 1, 1) {
                Ok(o) => o,
                Err(_) => return "bad-op".into(),
            }
        };
        let ep = UDPEndpoint::new(None, "224.0.0.1".to_owned(), 3400);
        let mut s = Sender::new(ep, 1, &oti, &config);
        s.subscribe(Arc::new(Sub(self.events.clone())));
        self.sender = Some(s);
        self.cfg = Some(Cfg { full, start_id: n[2] as u32, il: n[3] as u8, efdt: n[4] as u16, fdt_dur: n[1], fits, queues });
        "ok".into()
    }

    fn exec_add(&mut self, t: &[&str]) -> String {
        // add <prio> <nSym> <maxCount> <n|d|i> <carNs> <-|startNs> <n|f|d|t> <targetNs> <0|1> <E> <B> <rem> [x<expiresNs>]
        if t.len() < 13 || t.len() > 15 {
            return "bad-op".into();
        }
        // optional tokens: x<expiresNs> (cache control, harness only), F<c0,c1,..> (fault schedule of a STREAM source)
        let mut cache_control = None;
        let mut faults: Vec<u64> = Vec::new();
        // Q<p> / R<p>: EMPTY object with RaptorQ / Raptor and p parity symbols (buffer source)
        let mut rateless: Option<(char, u64)> = None;
        for x in &t[13..] {
            if let Some(v) = x.strip_prefix('Q').and_then(|v| v.parse::<u64>().ok()) {
                rateless = Some(('Q', v));
                continue;
            }
            if let Some(v) = x.strip_prefix('R').and_then(|v| v.parse::<u64>().ok()) {
                rateless = Some(('R', v));
                continue;
            }
            if let Some(v) = x.strip_prefix('x').and_then(|v| v.parse::<u64>().ok()) {
                cache_control = Some(flute::sender::CacheControl::Expires(dur(v)));
            } else if let Some(v) = x.strip_prefix('F') {
                let l: Vec<Option<u64>> = v.split(',').map(|y| y.parse::<u64>().ok()).collect();
                if l.is_empty() || l.iter().any(|y| y.is_none()) {
                    return "bad-op".into();
                }
                faults = l.into_iter().map(|y| y.unwrap()).collect();
            } else {
                return "bad-op".into();
            }
        }
        let p = |i: usize| t[i].parse::<u64>().ok();
        let (prio, n_sym, maxc, card, td, al, e, bl, rem) =
            match (p(1), p(2), p(3), p(5), p(8), p(9), p(10), p(11), p(12)) {
                (Some(a), Some(b), Some(c), Some(d), Some(e), Some(f), Some(g), Some(h), Some(i)) => (a, b, c, d, e, f, g, h, i),
                _ => return "bad-op".into(),
            };
        let car = match t[4] {
            "n" => None,
            "d" => Some((false, card)),
            "i" => Some((true, card)),
            _ => return "bad-op".into(),
        };
        let start = match t[6] {
            "-" => None,
            x => match x.parse::<u64>() {
                Ok(v) => Some(v),
                _ => return "bad-op".into(),
            },
        };
        let target = match t[7] {
            "n" => None,
            "f" => Some(('f', 0)),
            "d" => Some(('d', td)),
            "t" => Some(('t', td)),
            _ => return "bad-op".into(),
        };
        if al > 1 || e == 0 || e > 65535 || bl == 0 || rem == 0 || rem > e {
            return "bad-op".into();
        }
        if let Some((_, pz)) = rateless {
            // the op's nSym is the packet count of one transfer = parity; such an object is never paced
            if pz == 0 || pz != n_sym || target.is_some() || !faults.is_empty() {
                return "bad-op".into();
            }
        }
        // a READ failure cannot be observed on an empty source (the lone empty-object packet needs no data): outside
        // the fault model's input domain; only open failures (code 0) are meaningful for an empty object
        if n_sym == 0 && faults.iter().any(|c| *c >= 1) {
            return "bad-op".into();
        }
        let len = if n_sym == 0 || rateless.is_some() { 0 } else { (n_sym - 1) * e + rem };
        let sender = match self.sender.as_mut() {
            Some(s) => s,
            None => return "bad-op".into(),
        };
        let toi_box = sender.allocate_toi();
        let toi = toi_box.get() as u64;
        let content: Vec<u8> = (0..len).map(|i| (i as u8) ^ (toi as u8)).collect();
        let config = TransferConfig {
            max_transfer_count: maxc as u32,
            carousel_mode: car.map(|(iv, d)| {
                if iv {
                    CarouselRepeatMode::IntervalBetweenStartTimes(dur(d))
                } else {
                    CarouselRepeatMode::DelayBetweenTransfers(dur(d))
                }
            }),
            target_acquisition: target.map(|(k, d)| match k {
                'f' => TargetAcquisition::AsFastAsPossible,
                'd' => TargetAcquisition::WithinDuration(Duration::from_nanos(d)),
                _ => TargetAcquisition::WithinTime(st(d)),
            }),
            oti: Some(match rateless {
                None => Oti::new_no_code(e as u16, bl as u16),
                Some(('Q', pz)) => match Oti::new_raptorq(e as u16, bl as u16, pz as u16, 1, 1) {
                    Ok(x) => x,
                    Err(_) => return "bad-op".into(),
                },
                Some((_, pz)) => match Oti::new_raptor(e as u16, bl as u16, pz as u16, 1, 1) {
                    Ok(x) => x,
                    Err(_) => return "bad-op".into(),
                },
            }),
            transfer_start_time: start.map(st),
            toi: Some(toi_box),
            allow_immediate_stop_before_first_transfer: if al == 1 { Some(true) } else { None },
            ..Default::default()
        };
        let config = match cache_control {
            Some(cc) => TransferConfig { cache_control: Some(cc), ..config },
            None => config,
        };
        let url = url::Url::parse(&format!("file:///o{}", toi)).unwrap();
        let sched = crate::probe::Schedule::new(faults.clone());
        let obj = if faults.is_empty() {
            ObjectDesc::create_from_buffer(content, "application/octet-stream", &url, false, config)
        } else {
            ObjectDesc::create_from_stream(Box::new(crate::probe::Scheduled::new(content, sched.clone())), "application/octet-stream", &url, false, config)
        };
        let obj = match obj {
            Ok(o) => o,
            Err(_) => return "ERR".into(),
        };
        let added = sender.add_object(prio as u32, obj);
        // transfer attempts are counted from here on (the i-th rewind of the source = the i-th transfer start)
        sched.arm();
        match added {
            Ok(v) => {
                let o = Obj {
                    toi,
                    prio: prio as u32,
                    n_sym,
                    n_pk: n_sym.max(1),
                    e: e as u16,
                    bl: bl as u32,
                    maxc: maxc as u32,
                    car,
                    target,
                    allow: al == 1,
                    eff_start: start,
                    published_for_sure: false,
                    removed: None,
                    gone: false,
                    in_transfer: false,
                    starts: 0,
                    stops: 0,
                    sent: 0,
                    seen: BTreeSet::new(),
                    opened: Vec::new(),
                    t_start: 0,
                    tick: None,
                    tdur: 0,
                    last_pkt: None,
                    prev_start: None,
                    prev_end_pkt: None,
                    trig_since: false,
                    wire_completed: 0,
                    pkts_total: 0,
                    forced_seen: false,
                    closed_seen: false,
                    faults: faults.clone(),
                    rateless_empty: rateless.is_some(),
                };
                self.objs.insert(toi, o);
                self.lens.insert(toi, len);
                self.waitq.push(toi);
                format!("ok {}", v)
            }
            Err(_) => "ERR".into(),
        }
    }

    fn block_sizes(&self, o: &Obj) -> Vec<u64> {
        let len = self.lens.get(&o.toi).copied().unwrap_or(0);
        let (al, asm, nl, nb) = flute::verif_hooks::block_partitioning(o.bl as u64, len, o.e as u64);
        (0..nb).map(|i| if i < nl { al } else { asm }).collect()
    }

    fn api_checks(&mut self, o: &mut Oracle) {
        // cheap invariants evaluated through the public API after every call
        let sender = match self.sender.as_ref() {
            Some(s) => s,
            None => return,
        };
        for ob in self.objs.values() {
            let added = sender.is_added(ob.toi as u128);
            if ob.car.is_some() && ob.removed.is_none() && !added {
                o.fail("C12:carousel-vanished", &format!("carousel object {} is no longer in the sender although it was never removed", ob.toi));
            }
            if ob.removed.is_some() && added {
                o.fail("C12:removed-still-added", &format!("object {} removed but is_added", ob.toi));
            }
            if ob.car.is_none() && ob.removed.is_none() {
                // C12 counts transfers; whether an attempt that failed to start (faulty stream source: outside C12's
                // quantifier, observation sched-9) counts is not stated: judged on the attempts that were not scheduled
                // to fail (the model comparison still pins the current policy: attempts count)
                if ob.healthy_stops() >= ob.burst() && added {
                    o.fail("C12:expired-still-added", &format!("object {} had {} transfers (max {}) and is still is_added", ob.toi, ob.healthy_stops(), ob.maxc));
                }
                if ob.stops < ob.burst() && !added {
                    o.fail("C12:vanished-early", &format!("object {} vanished after {} of {} transfers", ob.toi, ob.stops, ob.maxc));
                }
            }
        }
    }

    fn exec_read(&mut self, t: &[&str], o: &mut Oracle) -> String {
        let now: u64 = match t.get(1).and_then(|x| x.parse().ok()) {
            Some(v) => v,
            None => return "bad-op".into(),
        };
        if self.sender.is_none() {
            return "bad-op".into();
        }
        // ---- pre-state facts for the oracles
        let ticks_now: BTreeMap<u64, (u64, u64)> = self
            .objs
            .values()
            .filter(|ob| ob.wants_tick() && ob.removed.is_none() && !ob.gone)
            .map(|ob| {
                let dur = match ob.target {
                    Some(('d', d)) => d,
                    Some(('t', tt)) => tt.saturating_sub(now),
                    _ => 0,
                };
                (ob.toi, (self.tick_of(ob, now), dur))
            })
            .collect();
        // ready objects per queue before the call (strict priority / pacing progress)
        let mut ready: Vec<(u32, u64, bool)> = Vec::new(); // (prio, toi, in_slot)
        for ob in self.objs.values() {
            if self.surely_due(ob, now) {
                ready.push((ob.prio, ob.toi, true));
            } else if self.surely_eligible(ob, now) && self.open_in_queue(ob.prio) < self.slots(ob.prio) {
                ready.push((ob.prio, ob.toi, false));
            }
        }
        let blocked_behind_slot: Vec<(u32, u64)> = self
            .objs
            .values()
            .filter(|ob| self.surely_eligible(ob, now) && self.open_in_queue(ob.prio) >= self.slots(ob.prio) && self.holders_surely_not_due(ob.prio, now))
            .map(|ob| (ob.prio, ob.toi))
            .collect();
        let no_object_remains = self.sender.as_ref().unwrap().nb_objects() == 0 && !self.objs.values().any(|ob| ob.in_transfer);

        self.events.lock().unwrap().clear();
        let sender = self.sender.as_mut().unwrap();
        let r = guarded(AssertUnwindSafe(|| sender.read(st(now))));
        let data = match r {
            Ok(d) => d,
            Err(loc) => {
                self.dead = true;
                o.fail("C14:degenerate-panic", &format!("Sender::read panics at {}", loc));
                return "PANIC".into();
            }
        };
        let evs: Vec<(bool, u64, u64)> = self.events.lock().unwrap().drain(..).collect();
        let mut out = String::new();
        let full = self.cfg.as_ref().unwrap().full;
        for (is_start, toi, et) in evs {
            out.push_str(&format!("{}{} ", if is_start { '+' } else { '-' }, toi));
            if et != now {
                o.fail("C14:event-time", &format!("event for {} carries time {} during read at {}", toi, et, now));
            }
            if is_start {
                self.on_start(toi, now, &ticks_now, o);
                if !full && self.cfg.as_ref().unwrap().fits {
                    self.pending_new_fdt = true;
                }
            } else {
                self.on_stop(toi, now, o);
            }
        }
        // ---- decode
        let dec = match &data {
            None => Dec::None,
            Some(d) => match parse_alc_pkt(d) {
                Err(_) => {
                    o.fail("C11:undecodable", "datagram from Sender::read not parsed by parse_alc_pkt");
                    return format!("{}undecodable", out);
                }
                Ok(pkt) => {
                    let oti = match pkt.oti.clone() {
                        Some(x) => x,
                        None => {
                            o.fail("C11:undecodable", "no in-band FTI");
                            return format!("{}undecodable", out);
                        }
                    };
                    let pid = match parse_payload_id(&pkt, &oti) {
                        Ok(p) => p,
                        Err(_) => {
                            o.fail("C11:undecodable", "payload id");
                            return format!("{}undecodable", out);
                        }
                    };
                    if pkt.lct.toi == 0 {
                        let id = pkt.fdt_info.as_ref().map(|f| f.fdt_instance_id).unwrap_or(u32::MAX);
                        let tl = pkt.transfer_length.unwrap_or(0);
                        let e = oti.encoding_symbol_length as u64;
                        let a = self.fdts.entry(id).or_default();
                        a.n = if e == 0 { 0 } else { (tl + e - 1) / e };
                        a.syms.entry(pid.esi).or_insert_with(|| d[pkt.data_payload_offset..].to_vec());
                        if pid.sbn != 0 {
                            o.fail("C11:fdt-multiblock", "FDT instance spans several blocks (harness assumption)");
                        }
                        if pkt.lct.close_object {
                            o.fail("C12:fdt-close-object", "FDT packet carries B");
                        }
                        Dec::Fdt { id, esi: pid.esi }
                    } else {
                        Dec::Pkt { toi: pkt.lct.toi as u64, sbn: pid.sbn, esi: pid.esi, b: pkt.lct.close_object }
                    }
                }
            },
        };
        // ---- reads at a fixed instant
        if self.reads_same_instant.0 == now {
            if !matches!(dec, Dec::None) {
                self.reads_same_instant.1 += 1;
            }
        } else {
            self.reads_same_instant = (now, if matches!(dec, Dec::None) { 0 } else { 1 });
        }
        let res = match dec.clone() {
            Dec::None => {
                for (p, toi, _) in &ready {
                    o.fail("C13:idle-while-ready", &format!("read returned nothing although object {} (queue {}) is ready", toi, p));
                    break;
                }
                "none".to_string()
            }
            Dec::Fdt { id, esi } => self.on_fdt(id, esi, o),
            Dec::Pkt { toi, sbn, esi, b } => {
                if no_object_remains {
                    o.fail("C12:object-packet-when-empty", &format!("object packet of {} although no object remains", toi));
                }
                self.on_pkt(toi, sbn, esi, b, now, &ready, &blocked_behind_slot, o)
            }
        };
        self.last_dec = dec;
        self.api_checks(o);
        format!("{}{}", out, res)
    }

    fn on_start(&mut self, toi: u64, now: u64, ticks_now: &BTreeMap<u64, (u64, u64)>, o: &mut Oracle) {
        let full = self.cfg.as_ref().unwrap().full;
        // FIFO admission: nothing surely eligible of the same queue is ahead in the waiting order
        let prio = self.objs.get(&toi).map(|x| x.prio);
        if let Some(prio) = prio {
            for w in &self.waitq {
                if *w == toi {
                    break;
                }
                if let Some(a) = self.objs.get(w) {
                    if a.prio == prio && self.surely_eligible(a, now) {
                        o.fail("C13:fifo-admission", &format!("object {} starts although {} is ahead of it in queue {} and eligible", toi, w, prio));
                        break;
                    }
                }
            }
        }
        self.waitq.retain(|x| *x != toi);
        let open = prio.map(|p| self.open_in_queue(p)).unwrap_or(0);
        let slots = prio.map(|p| self.slots(p)).unwrap_or(0);
        let ob = match self.objs.get_mut(&toi) {
            Some(x) => x,
            None => {
                o.fail("C12:unknown-toi", &format!("StartTransfer for unknown TOI {}", toi));
                return;
            }
        };
        if ob.in_transfer {
            o.fail("C12:double-start", &format!("StartTransfer for {} while in transfer", toi));
        }
        if open + 1 > slots {
            o.fail("C13:multiplex-bound", &format!("{} objects in transfer in queue {} (max {})", open + 1, ob.prio, slots));
        }
        if open >= 1 {
            self.nontrivial.insert("multiplex");
        }
        if ob.removed.is_some() {
            o.fail("C12:start-after-remove", &format!("transfer of removed object {} starts", toi));
        }
        if full && !ob.published_for_sure && !self.announced.contains(&toi) {
            // automatic publications also publish: judged on the wire in on_pkt
        }
        if let Some(s) = ob.eff_start {
            if now < s {
                o.fail("C14:before-start-time", &format!("transfer of {} starts at {} before its start time {}", toi, now, s));
            }
            self.nontrivial.insert("start-time");
        }
        if ob.car.is_none() && ob.healthy_stops() >= ob.burst() {
            o.fail("C12:extra-transfer", &format!("transfer {} of object {} (max_transfer_count {})", ob.stops + 1, toi, ob.maxc));
        }
        // carousel gap
        if let Some((interval, d)) = ob.car {
            if ob.starts > 0 && !ob.trig_since {
                let refp = if interval { ob.prev_start } else { ob.prev_end_pkt };
                if let Some(r) = refp {
                    let ok = now.saturating_sub(r) >= d;
                    let boundary = ob.stops % ob.burst() == 0;
                    if !ok {
                        if ob.burst() > 1 && !boundary {
                            o.fail(
                                "C14:carousel-gap-burst-m>1",
                                &format!("object {} (max_transfer_count {}, carousel {}) transfer {} starts {} ns after the previous {} (< {})", toi, ob.maxc, if interval { "interval" } else { "delay" }, ob.starts + 1, now.saturating_sub(r), if interval { "start" } else { "end" }, d),
                            );
                        } else {
                            o.fail("C14:carousel-gap", &format!("object {} transfer {} starts {} ns after the previous {} (< {})", toi, ob.starts + 1, now.saturating_sub(r), if interval { "start" } else { "end" }, d));
                        }
                    }
                    self.nontrivial.insert("carousel-restart");
                }
            }
        }
        ob.in_transfer = true;
        self.starts_total += 1;
        ob.starts += 1;
        ob.sent = 0;
        ob.seen.clear();
        ob.opened.clear();
        ob.t_start = now;
        ob.prev_start = Some(now);
        ob.trig_since = false;
        ob.tick = None;
        if ob.wants_tick() {
            match ticks_now.get(&toi) {
                Some((tk, dur)) => {
                    ob.tick = Some(*tk);
                    ob.tdur = *dur;
                    self.ticks_used = true;
                    self.nontrivial.insert("paced");
                }
                None => o.fail("C14:harness-tick-missing", &format!("no tick computed for {}", toi)),
            }
        }
    }

    fn on_stop(&mut self, toi: u64, _now: u64, o: &mut Oracle) {
        let sizes = self.objs.get(&toi).map(|ob| self.block_sizes(ob));
        let ob = match self.objs.get_mut(&toi) {
            Some(x) => x,
            None => return,
        };
        if !ob.in_transfer {
            o.fail("C12:stop-without-start", &format!("StopTransfer for {} which is not in transfer", toi));
        }
        let forced = ob.removed.as_ref().map(|r| r.stoppable).unwrap_or(false);
        // a transfer attempt whose source fails (seek at the start, or the first read) yields no packet
        let faulted = ob.faults.get(ob.stops as usize).is_some();
        if faulted {
            if ob.sent != 0 {
                o.fail("C12:faulted-attempt-sent-packets", &format!("attempt {} of {} (fault code {:?}) sent {} packets", ob.stops + 1, toi, ob.faults.get(ob.stops as usize), ob.sent));
            }
            self.nontrivial.insert("stream-fault");
        } else if !forced {
            if ob.sent != ob.n_pk {
                o.fail("C12:incomplete-transfer", &format!("transfer of {} stops after {} of {} packets", toi, ob.sent, ob.n_pk));
            }
            // every source symbol exactly once
            let mut want = BTreeSet::new();
            if let Some(sz) = sizes {
                for (sbn, k) in sz.iter().enumerate() {
                    for esi in 0..*k {
                        want.insert((sbn as u32, esi as u32));
                    }
                }
            }
            if ob.n_sym == 0 {
                want.insert((0, 0));
            }
            if ob.rateless_empty {
                // the repair symbols of the empty block 0
                want.clear();
                for esi in 0..ob.n_sym {
                    want.insert((0, esi as u32));
                }
                self.nontrivial.insert("empty-rateless");
            }
            if ob.seen != want {
                o.fail("C12:symbols-of-transfer", &format!("transfer of {}: symbols seen {:?} != expected {:?}", toi, ob.seen, want));
            }
        }
        ob.in_transfer = false;
        ob.stops += 1;
        ob.prev_end_pkt = ob.last_pkt;
        let expired = ob.car.is_none() && ob.stops >= ob.burst();
        if ob.removed.is_none() && !expired {
            self.waitq.push(toi);
        }
        if expired || ob.removed.is_some() {
            ob.gone = true;
        }
    }

    fn on_fdt(&mut self, id: u32, esi: u32, o: &mut Oracle) -> String {
        let start_id = self.cfg.as_ref().unwrap().start_id;
        let k = id.wrapping_sub(start_id) & 0xFFFFF;
        let a = self.fdts.get_mut(&id).unwrap();
        self.fdt_tbl.insert(k, a.n);
        // contiguity of one FDT transfer
        match self.fdt_in_progress {
            Some(cur) if cur != id => {
                o.fail("C11:fdt-transfer-interrupted", &format!("instance {} starts while the transfer of instance {} is incomplete", id, cur));
            }
            _ => {}
        }
        if esi as u64 != a.cur_sent {
            o.fail("C11:fdt-order", &format!("FDT instance {} packet esi {} at position {}", id, esi, a.cur_sent));
        }
        a.cur_sent += 1;
        let last = a.cur_sent >= a.n;
        self.fdt_in_progress = if last { None } else { Some(id) };
        if last {
            a.cur_sent = 0;
        }
        if !a.complete && (a.syms.len() as u64) >= a.n {
            a.complete = true;
            let mut xml = Vec::new();
            for (_, v) in a.syms.iter() {
                xml.extend_from_slice(v);
            }
            let s = String::from_utf8_lossy(&xml).to_string();
            let mut tois = Vec::new();
            let mut rest = s.as_str();
            while let Some(p) = rest.find(" TOI=\"") {
                rest = &rest[p + 6..];
                if let Some(q) = rest.find('"') {
                    if let Ok(v) = rest[..q].parse::<u64>() {
                        tois.push(v);
                    }
                }
            }
            tois.sort();
            a.tois = tois.clone();
            if !self.complete_ids.contains(&id) {
                self.complete_ids.insert(id);
                self.pending_new_fdt = false;
            }
            for t in tois {
                self.announced.insert(t);
            }
            self.nontrivial.insert("fdt-complete");
        }
        if last && a.complete {
            let l = if a.tois.is_empty() { "-".to_string() } else { a.tois.iter().map(|x| x.to_string()).collect::<Vec<_>>().join(",") };
            format!("fdt {} {} L {}", id, esi, l)
        } else {
            format!("fdt {} {}", id, esi)
        }
    }

    #[allow(clippy::too_many_arguments)]
    fn on_pkt(&mut self, toi: u64, sbn: u32, esi: u32, b: bool, now: u64, ready: &[(u32, u64, bool)], blocked: &[(u32, u64)], o: &mut Oracle) -> String {
        self.obj_pkts += 1;
        let full = self.cfg.as_ref().unwrap().full;
        let il = self.cfg.as_ref().unwrap().il.max(1) as usize; // 0 is clamped to 1 by Sender::new
        if !self.announced.contains(&toi) {
            let fits = self.cfg.as_ref().unwrap().fits;
            o.fail(
                if full {
                    "C11:unpublished-sent"
                } else if !fits {
                    // ObjectsBeingTransferred + default OTI that cannot carry any FDT: the automatic publication
                    // at transfer start fails and the error is swallowed (fdt.rs get_next_file_transfer)
                    "C11:announce-before-send-publish-refused"
                } else {
                    "C11:announce-before-send"
                },
                &format!("packet of object {} although no FDT instance listing it has been sent completely", toi),
            );
        }
        if self.pending_new_fdt {
            o.fail("C11:pending-fdt-first", &format!("packet of object {} while a newly published FDT instance has not been sent completely", toi));
        }
        if let Some(cur) = self.fdt_in_progress {
            o.fail("C11:pending-fdt-first", &format!("packet of object {} inside the transfer of FDT instance {}", toi, cur));
        }
        let sizes = self.objs.get(&toi).map(|ob| self.block_sizes(ob)).unwrap_or_default();
        let prio = match self.objs.get(&toi) {
            Some(x) => x.prio,
            None => {
                o.fail("C12:unknown-toi", &format!("packet for unknown TOI {}", toi));
                return format!("pkt ? {} ? {}", toi, b as u8);
            }
        };
        // strict priority / pacing progress
        for (p, t2, in_slot) in ready {
            if *p < prio {
                o.fail(
                    if *in_slot && self.objs[t2].tick.is_some() { "C14:pacing-late" } else { "C13:strict-priority" },
                    &format!("packet of object {} (queue {}) emitted at {} although object {} of queue {} is ready", toi, prio, now, t2, p),
                );
                break;
            }
        }
        for (p, t2) in blocked {
            if *p < prio {
                // literal reading of the property: a higher-priority object that only waits for a free
                // multiplex slot (all slots held by paced / waiting transfers)
                o.fail(
                    "C13:hol-blocked-behind-paced-slot",
                    &format!("packet of object {} (queue {}) emitted at {} while object {} of queue {} is eligible but all {} slot(s) of its queue are held by transfers that are not due", toi, prio, now, t2, p, self.slots(*p)),
                );
                break;
            }
        }
        // round robin: every other object in transfer in this queue that was due before this read and
        // already in transfer at this object's previous packet has emitted since then
        let peers_due: Vec<u64> = ready.iter().filter(|(p, t2, s)| *p == prio && *t2 != toi && *s).map(|x| x.1).collect();
        {
            let since = self.rr_last.entry(toi).or_default().clone();
            let ob = &self.objs[&toi];
            if ob.sent > 0 {
                for pz in &peers_due {
                    let peer = &self.objs[pz];
                    let peer_started_before = peer.t_start < ob.last_pkt.unwrap_or(0) || (peer.sent > 0);
                    if peer_started_before && !since.contains(pz) && peer.sent > 0 && peer.tick.is_none() && ob.tick.is_none() {
                        // peer was in transfer (had emitted) yet did not emit between our two packets
                        if self.rr_peer_was_open_at_prev(toi, *pz) {
                            o.fail("C13:round-robin", &format!("two consecutive packets of {} in queue {} without a packet of {} which is in transfer and due", toi, prio, pz));
                        }
                    }
                }
                if !peers_due.is_empty() {
                    self.nontrivial.insert("round-robin");
                }
            }
        }
        // bookkeeping of "who emitted since my last packet"
        for (t2, set) in self.rr_last.iter_mut() {
            if *t2 != toi {
                set.insert(toi);
            }
        }
        self.rr_last.insert(toi, BTreeSet::new());

        let ob = self.objs.get_mut(&toi).unwrap();
        if !ob.in_transfer {
            o.fail("C12:packet-outside-transfer", &format!("packet of {} outside Start/Stop", toi));
        }
        let idx = ob.sent;
        // removal semantics
        if let Some(r) = ob.removed.as_mut() {
            r.pkts_after += 1;
            if !r.in_transfer || ob.starts > r.starts_at_removal {
                o.fail("C12:packet-after-remove", &format!("packet of {} which was removed while not in transfer / in a later transfer", toi));
            } else if r.stoppable {
                if r.pkts_after > 1 {
                    o.fail("C12:remove-more-than-one", &format!("{} packets of {} after its removal (stoppable)", r.pkts_after, toi));
                }
                if !b {
                    o.fail("C12:remove-no-close-flag", &format!("packet of {} after its removal does not carry B", toi));
                }
                ob.forced_seen = true;
            }
        }
        // B flag
        let forced = ob.removed.as_ref().map(|r| r.stoppable).unwrap_or(false);
        let last_of_transfer = idx + 1 == ob.n_pk;
        let is_last_transfer = ob.car.is_none() && ob.stops + 1 == ob.maxc as u64;
        let want_b = forced || ob.n_sym == 0 || (last_of_transfer && is_last_transfer);
        // C08 close-object clause seen from the scheduler (any history, trigger_transfer_at included): a packet with B
        // is the last packet EVER sent for its TOI (an empty object's lone packet always carries B: exempt)
        if ob.closed_seen && ob.n_sym != 0 {
            o.fail("C08:packet-after-close-flag", &format!("packet {} of transfer {} of {} follows a packet of that TOI carrying the close-object flag", idx, ob.starts, toi));
        }
        if b {
            ob.closed_seen = true;
        }
        if b != want_b {
            o.fail("C12:close-flag", &format!("packet {} of transfer {} of {}: B={} expected {}", idx, ob.starts, toi, b, want_b));
        }
        // symbols
        if !ob.seen.insert((sbn, esi)) {
            o.fail("C12:duplicate-symbol", &format!("symbol ({},{}) of {} twice in one transfer", sbn, esi, toi));
        }
        // interleave window
        if !ob.opened.contains(&sbn) {
            if let Some(mx) = ob.opened.iter().max() {
                if sbn < *mx {
                    o.fail("C13:interleave-order", &format!("block {} of {} opened after block {}", sbn, toi, mx));
                }
            }
            ob.opened.push(sbn);
        }
        let open_blocks = ob
            .opened
            .iter()
            .filter(|s| {
                let k = sizes.get(**s as usize).copied().unwrap_or(0);
                (ob.seen.iter().filter(|(a, _)| a == *s).count() as u64) < k
            })
            .count();
        if open_blocks > il {
            o.fail("C13:interleave-window", &format!("{} blocks of {} open at once (interleave_blocks {})", open_blocks, toi, il));
        }
        if sizes.len() > 1 {
            self.nontrivial.insert("multi-block");
        }
        // pacing lower bound
        if let Some(tk) = ob.tick {
            let n = ob.n_sym as u128;
            // C14 as stated, independent of any tick computed here: packet idx not before start + idx * target / n,
            // up to 1 ns per packet of integer rounding: (elapsed + idx) * n >= idx * target
            let lhs = ((now as u128).saturating_sub(ob.t_start as u128)) * n + (idx as u128) * n;
            if lhs < (idx as u128) * (ob.tdur as u128) {
                o.fail("C14:pacing-early", &format!("packet {} of {} at start+{} ns, target {} ns over {} packets (floor tick {})", idx, toi, now.saturating_sub(ob.t_start), ob.tdur, n, tk));
            }
        }
        if let Some(s) = ob.eff_start {
            if ob.starts == 1 && now < s {
                o.fail("C14:before-start-time", &format!("packet of {} at {} before its start time {}", toi, now, s));
            }
        }
        ob.sent += 1;
        ob.pkts_total += 1;
        ob.last_pkt = Some(now);
        if ob.sent == ob.n_pk {
            ob.wire_completed += 1;
        }
        format!("pkt {} {} {} {}", prio, toi, idx, b as u8)
    }

    fn rr_peer_was_open_at_prev(&self, toi: u64, peer: u64) -> bool {
        let a = &self.objs[&toi];
        let p = &self.objs[&peer];
        // the peer's current transfer started no later than our previous packet
        match a.last_pkt {
            Some(lp) => p.in_transfer && p.t_start <= lp && p.last_pkt.map(|x| x <= lp).unwrap_or(false),
            None => false,
        }
    }
}

impl Engine for SchedEngine {
    fn reset(&mut self) {
        *self = SchedEngine::new();
    }

    fn exec(&mut self, op: &str, o: &mut Oracle) -> String {
        let t: Vec<&str> = op.split(' ').collect();
        if t.len() < 2 || t[0] != "sched" {
            return "bad-op".into();
        }
        let t = &t[1..];
        if self.dead && t[0] != "fdtpkts" {
            return "PANIC".into();
        }
        match t[0] {
            "fdtpkts" => "ok".into(),
            "probe" => {
                // engine-only scenario on a private Sender (fault-injecting stream source): see probe.rs
                let mut o2 = Oracle::default();
                let r = guarded(AssertUnwindSafe(|| crate::probe::run(t, &mut o2)));
                o.fails.append(&mut o2.fails);
                match r {
                    Ok(x) => x,
                    Err(loc) => {
                        // known mechanism: a read error of the source before the first packet of a transfer leaves the
                        // encoder without block: BlockEncoder::read takes the "empty object" branch (debug_assert)
                        let read_fault = t.get(7).map(|x| *x != "0").unwrap_or(false);
                        let class = if read_fault && loc.contains("blockencoder.rs") { "C12:stream-read-error-before-first-packet" } else { "C12:stream-source-panic" };
                        o.fail(class, &format!("sender panics at {} with a failing stream source", loc));
                        "ok".into()
                    }
                }
            }
            "window" => {
                // engine-only scenario on a private Sender (interleave window of a FEC object): see probe.rs
                let mut o2 = Oracle::default();
                let r = guarded(AssertUnwindSafe(|| crate::probe::window(t, &mut o2)));
                o.fails.append(&mut o2.fails);
                if let Err(loc) = r {
                    o.fail("C13:interleave-panic", &format!("sender panics at {} with a multi-block FEC object", loc));
                }
                "ok".into()
            }
            "pace" => {
                // engine-only scenario on a private Sender (paced FEC / content-encoded object): see probe.rs
                let mut o2 = Oracle::default();
                let r = guarded(AssertUnwindSafe(|| crate::probe::pace(t, &mut o2)));
                o.fails.append(&mut o2.fails);
                match r {
                    Ok(x) => x,
                    Err(loc) => {
                        o.fail("C14:degenerate-panic", &format!("sender panics at {} with a paced FEC / content-encoded object", loc));
                        "ok".into()
                    }
                }
            }
            "new" => self.exec_new(t),
            "add" => {
                let r = self.exec_add(t);
                self.api_checks(o);
                r
            }
            "publish" => {
                let now: u64 = match t.get(1).and_then(|x| x.parse().ok()) {
                    Some(v) => v,
                    None => return "bad-op".into(),
                };
                let s = match self.sender.as_mut() {
                    Some(s) => s,
                    None => return "bad-op".into(),
                };
                match guarded(AssertUnwindSafe(|| s.publish(st(now)))) {
                    Ok(Ok(())) => {
                        for ob in self.objs.values_mut() {
                            if ob.removed.is_none() && !ob.gone {
                                ob.published_for_sure = true;
                            }
                        }
                        self.pending_new_fdt = true;
                        self.publishes += 1;
                        "ok".into()
                    }
                    Ok(Err(_)) => "ERR".into(),
                    Err(loc) => {
                        self.dead = true;
                        o.fail("C14:degenerate-panic", &format!("Sender::publish panics at {}", loc));
                        "PANIC".into()
                    }
                }
            }
            "remove" => {
                let toi: u64 = match t.get(1).and_then(|x| x.parse().ok()) {
                    Some(v) => v,
                    None => return "bad-op".into(),
                };
                let s = match self.sender.as_mut() {
                    Some(s) => s,
                    None => return "bad-op".into(),
                };
                let before = s.nb_objects();
                let r = s.remove_object(toi as u128);
                let after = s.nb_objects();
                if r != (before == after + 1) || (!r && before != after) {
                    o.fail("C12:remove-count", &format!("remove_object({}) = {} but nb_objects {} -> {}", toi, r, before, after));
                }
                if r {
                    if let Some(ob) = self.objs.get_mut(&toi) {
                        ob.removed = Some(Removal {
                            in_transfer: ob.in_transfer,
                            stoppable: ob.allow || ob.stops > 0,
                            pkts_after: 0,
                            starts_at_removal: ob.starts,
                        });
                        if !ob.in_transfer {
                            ob.gone = true;
                        }
                        if ob.in_transfer {
                            self.nontrivial.insert("remove-in-transfer");
                        }
                    }
                    self.waitq.retain(|x| *x != toi);
                }
                self.api_checks(o);
                r.to_string()
            }
            "trigger" => {
                let toi: u64 = match t.get(1).and_then(|x| x.parse().ok()) {
                    Some(v) => v,
                    None => return "bad-op".into(),
                };
                let ts = match t.get(2) {
                    Some(&"-") => None,
                    Some(x) => match x.parse::<u64>() {
                        Ok(v) => Some(v),
                        _ => return "bad-op".into(),
                    },
                    None => return "bad-op".into(),
                };
                let s = match self.sender.as_mut() {
                    Some(s) => s,
                    None => return "bad-op".into(),
                };
                let r = s.trigger_transfer_at(toi as u128, ts.map(st));
                if r {
                    if let Some(ob) = self.objs.get_mut(&toi) {
                        if !ob.in_transfer {
                            ob.trig_since = true;
                            if ts.is_some() {
                                ob.eff_start = ts;
                            }
                            self.nontrivial.insert("trigger");
                        }
                    }
                }
                r.to_string()
            }
            "complete" => {
                if let Some(s) = self.sender.as_mut() {
                    s.set_complete();
                    "ok".into()
                } else {
                    "bad-op".into()
                }
            }
            "read" => self.exec_read(t, o),
            "nb_objects" => match self.sender.as_ref() {
                Some(s) => {
                    let n = s.nb_objects();
                    let want = self.objs.values().filter(|ob| ob.removed.is_none() && !(ob.car.is_none() && ob.stops >= ob.burst())).count();
                    if n != want {
                        o.fail("C12:nb-objects", &format!("nb_objects = {}, objects added and neither removed nor finished = {}", n, want));
                    }
                    n.to_string()
                }
                None => "bad-op".into(),
            },
            "is_added" => match (self.sender.as_ref(), t.get(1).and_then(|x| x.parse::<u64>().ok())) {
                (Some(s), Some(toi)) => s.is_added(toi as u128).to_string(),
                _ => "bad-op".into(),
            },
            "nb_transfers" => match (self.sender.as_mut(), t.get(1).and_then(|x| x.parse::<u64>().ok())) {
                (Some(s), Some(toi)) => {
                    let r = s.nb_transfers(toi as u128);
                    if let (Some(v), Some(ob)) = (r, self.objs.get(&toi)) {
                        // completed transfers = Stop events; the wire may be ahead by the one transfer
                        // whose last packet went out but whose completion was not polled yet
                        let faulted_so_far = ob.faults.iter().take(ob.stops as usize).count() as u64;
                        if v == ob.stops && faulted_so_far > 0 && ob.wire_completed + faulted_so_far >= ob.stops && ob.wire_completed <= ob.stops + 1 {
                            if ob.wire_completed < ob.stops {
                                o.fail("C12:transfer-count-includes-failed-attempt", &format!("nb_transfers({}) = {} = StopTransfer events, of which {} attempts failed to start; complete transfers on the wire {}", toi, v, faulted_so_far, ob.wire_completed));
                            }
                        } else if v != ob.stops || !(ob.stops <= ob.wire_completed && ob.wire_completed <= ob.stops + 1) {
                            o.fail("C12:nb-transfers-wire", &format!("nb_transfers({}) = {}, StopTransfer events {}, complete transfers on the wire {}", toi, v, ob.stops, ob.wire_completed));
                        }
                        if v > 0 {
                            self.nontrivial.insert("nb-transfers");
                        }
                    }
                    match r {
                        Some(v) => v.to_string(),
                        None => "none".into(),
                    }
                }
                _ => "bad-op".into(),
            },
            _ => "bad-op".into(),
        }
    }

    fn end_case(&mut self, _o: &mut Oracle) {}
}
