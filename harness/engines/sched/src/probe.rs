//! Fault-injecting stream sources (engine-only oracle, C12): the Lean model has buffer sources only
//! (`BlockEncoder::new` cannot fail there), so this scenario runs on the real `Sender` alone and is judged by the
//! lifecycle clauses directly: every StartTransfer has its StopTransfer, an object without carousel leaves the sender
//! after `max_transfer_count` ATTEMPTS even when attempts fail to start, a transfer is all-or-nothing on the wire.
//!
//!   probe <f|b> <nSym> <maxCount> <n|d> <seekFailFrom> <seekFailCount> <readFailAt>        -> ok | PANIC
//!
//! seek calls are counted from the moment the object has been added and published; calls number
//! `seekFailFrom .. seekFailFrom + seekFailCount` (1-based) fail; the `readFailAt`-th read() call fails (0 = never).
use flute::core::alc::parse_alc_pkt;
use flute::core::{Oti, UDPEndpoint};
use flute::sender::{CarouselRepeatMode, Config, Event, FDTPublishMode, ObjectDesc, Sender, Subscriber, TransferConfig};
use harness_core::Oracle;
use std::io::{Read, Seek, SeekFrom};
use std::sync::atomic::{AtomicBool, AtomicU64, Ordering};
use std::sync::{Arc, Mutex};
use std::time::{Duration, SystemTime, UNIX_EPOCH};

#[derive(Debug, Default)]
pub struct Faults {
    armed: AtomicBool,
    seeks: AtomicU64,
    reads: AtomicU64,
    seek_from: u64,
    seek_count: u64,
    read_at: u64,
    pub seek_failed: AtomicU64,
    pub read_failed: AtomicU64,
}

#[derive(Debug)]
struct Flaky {
    inner: std::io::Cursor<Vec<u8>>,
    f: Arc<Faults>,
}

impl Read for Flaky {
    fn read(&mut self, buf: &mut [u8]) -> std::io::Result<usize> {
        if self.f.armed.load(Ordering::SeqCst) {
            let k = self.f.reads.fetch_add(1, Ordering::SeqCst) + 1;
            // read_at = k: the k-th read fails once; read_at = 1_000_000 + k: every read from the k-th on fails
            let hit = if self.f.read_at >= 1_000_000 { k >= self.f.read_at - 1_000_000 } else { k == self.f.read_at };
            if self.f.read_at != 0 && hit {
                self.f.read_failed.fetch_add(1, Ordering::SeqCst);
                return Err(std::io::Error::new(std::io::ErrorKind::Other, "injected read failure"));
            }
        }
        self.inner.read(buf)
    }
}

impl Seek for Flaky {
    fn seek(&mut self, pos: SeekFrom) -> std::io::Result<u64> {
        if self.f.armed.load(Ordering::SeqCst) {
            let k = self.f.seeks.fetch_add(1, Ordering::SeqCst) + 1;
            if k >= self.f.seek_from && k - self.f.seek_from < self.f.seek_count {
                self.f.seek_failed.fetch_add(1, Ordering::SeqCst);
                return Err(std::io::Error::new(std::io::ErrorKind::Other, "injected seek failure"));
            }
        }
        self.inner.seek(pos)
    }
}

/// Fault schedule of a stream source used in the MAIN flow (compared with the Lean model): the i-th rewind of the
/// source after `arm()` is the i-th transfer attempt; its code (if any) says how it fails: 0 = the rewind itself
/// (seek) fails -> `BlockEncoder::new` fails; >= 1 = the first read after the rewind fails.
#[derive(Debug, Clone)]
pub struct Schedule(Arc<(AtomicBool, AtomicU64, Vec<u64>, AtomicBool)>);

impl Schedule {
    pub fn new(codes: Vec<u64>) -> Schedule {
        Schedule(Arc::new((AtomicBool::new(false), AtomicU64::new(0), codes, AtomicBool::new(false))))
    }
    pub fn arm(&self) {
        self.0 .0.store(true, Ordering::SeqCst);
    }
}

#[derive(Debug)]
pub struct Scheduled {
    inner: std::io::Cursor<Vec<u8>>,
    s: Schedule,
}

impl Scheduled {
    pub fn new(content: Vec<u8>, s: Schedule) -> Scheduled {
        Scheduled { inner: std::io::Cursor::new(content), s }
    }
}

impl Read for Scheduled {
    fn read(&mut self, buf: &mut [u8]) -> std::io::Result<usize> {
        let st = &self.s.0;
        if st.0.load(Ordering::SeqCst) && st.3.swap(false, Ordering::SeqCst) {
            return Err(std::io::Error::new(std::io::ErrorKind::Other, "injected read failure"));
        }
        self.inner.read(buf)
    }
}

impl Seek for Scheduled {
    fn seek(&mut self, pos: SeekFrom) -> std::io::Result<u64> {
        let st = &self.s.0;
        if st.0.load(Ordering::SeqCst) && pos == SeekFrom::Start(0) {
            let i = st.1.fetch_add(1, Ordering::SeqCst) as usize;
            st.3.store(false, Ordering::SeqCst);
            match st.2.get(i) {
                Some(0) => return Err(std::io::Error::new(std::io::ErrorKind::Other, "injected seek failure")),
                Some(_) => st.3.store(true, Ordering::SeqCst),
                None => {}
            }
        }
        self.inner.seek(pos)
    }
}

struct Rec(Mutex<Vec<(bool, u128)>>);
impl Subscriber for Rec {
    fn on_sender_event(&self, evt: &Event, _now: SystemTime) {
        let e = match evt {
            Event::StartTransfer(i) => (true, i.toi),
            Event::StopTransfer(i) => (false, i.toi),
        };
        self.0.lock().unwrap().push(e);
    }
}

const E: usize = 16;

pub fn run(t: &[&str], o: &mut Oracle) -> String {
    if t.len() != 8 {
        return "bad-op".into();
    }
    let n: Vec<u64> = [2usize, 3, 5, 6, 7].iter().filter_map(|i| t[*i].parse().ok()).collect();
    if n.len() != 5 || n[0] == 0 {
        return "bad-op".into();
    }
    let (n_sym, maxc, seek_from, seek_count, read_at) = (n[0], n[1] as u32, n[2], n[3], n[4]);
    let full = match t[1] {
        "f" => true,
        "b" => false,
        _ => return "bad-op".into(),
    };
    let carousel = match t[4] {
        "n" => false,
        "d" => true,
        _ => return "bad-op".into(),
    };
    let faults = Arc::new(Faults { seek_from, seek_count, read_at, ..Default::default() });
    let mut pq = std::collections::BTreeMap::new();
    pq.insert(0u32, flute::sender::PriorityQueue::new(1));
    let config = Config {
        fdt_publish_mode: if full { FDTPublishMode::FullFDT } else { FDTPublishMode::ObjectsBeingTransferred },
        priority_queues: pq,
        fdt_duration: Duration::from_secs(3600),
        fdt_carousel_mode: CarouselRepeatMode::DelayBetweenTransfers(Duration::from_secs(3600)),
        ..Default::default()
    };
    let oti = Oti::new_no_code(1400, 64);
    let mut sender = Sender::new(UDPEndpoint::new(None, "224.0.0.1".to_owned(), 3400), 1, &oti, &config);
    let rec = Arc::new(Rec(Mutex::new(Vec::new())));
    sender.subscribe(rec.clone());
    let stream = Flaky { inner: std::io::Cursor::new(vec![0x5Au8; E * n_sym as usize]), f: faults.clone() };
    let tc = TransferConfig {
        max_transfer_count: maxc,
        carousel_mode: if carousel { Some(CarouselRepeatMode::DelayBetweenTransfers(Duration::from_millis(20))) } else { None },
        oti: Some(Oti::new_no_code(E as u16, 4)),
        ..Default::default()
    };
    let url = url::Url::parse("file:///stream.bin").unwrap();
    let obj = match ObjectDesc::create_from_stream(Box::new(stream), "application/octet-stream", &url, false, tc) {
        Ok(x) => x,
        Err(_) => return "ERR".into(),
    };
    let t0 = UNIX_EPOCH + Duration::from_secs(1_700_000_000);
    let toi = match sender.add_object(0, obj) {
        Ok(x) => x,
        Err(_) => return "ERR".into(),
    };
    if sender.publish(t0).is_err() {
        return "ERR".into();
    }
    faults.armed.store(true, Ordering::SeqCst);

    // attempts[i] = packets of the object seen between the i-th Start and its Stop
    let mut attempts: Vec<u64> = Vec::new();
    let mut open = false;
    let mut seen_events = 0usize;
    // (nb_transfers, attempts finished, complete transfers on the wire) right before the removal
    let mut nb_transfers_live: Option<(u64, u64, u64)> = None;
    let mut max_starts_per_call = 0u64;
    let mut sync = |sender: &Sender, attempts: &mut Vec<u64>, open: &mut bool, o: &mut Oracle| {
        let _ = sender;
        let evs = rec.0.lock().unwrap();
        let starts_now = evs.iter().skip(seen_events).filter(|(st, et)| *st && *et == toi).count() as u64;
        max_starts_per_call = max_starts_per_call.max(starts_now);
        for (start, etoi) in evs.iter().skip(seen_events) {
            if *etoi != toi {
                continue;
            }
            if *start {
                if *open {
                    o.fail("C12:start-without-stop", "StartTransfer while the previous StartTransfer of the object has no StopTransfer");
                }
                *open = true;
                attempts.push(0);
            } else {
                if !*open {
                    o.fail("C12:stop-without-start", "StopTransfer without StartTransfer");
                }
                *open = false;
            }
        }
        seen_events = evs.len();
    };
    let polls = 1500u64;
    for i in 0..polls {
        let now = t0 + Duration::from_millis(i);
        if carousel && i == polls - 200 {
            let finished = attempts.len() as u64 - open as u64;
            let on_wire = attempts.iter().take(finished as usize).filter(|a| **a == n_sym).count() as u64;
            nb_transfers_live = sender.nb_transfers(toi).map(|x| (x, finished, on_wire));
            sender.remove_object(toi);
        }
        let d = sender.read(now);
        sync(&sender, &mut attempts, &mut open, o);
        if let Some(d) = d {
            if let Ok(p) = parse_alc_pkt(&d) {
                if p.lct.toi == toi {
                    match attempts.last_mut() {
                        Some(a) if open => *a += 1,
                        _ => o.fail("C12:packet-outside-transfer", "object packet outside StartTransfer .. StopTransfer"),
                    }
                }
            }
        }
    }
    let seek_failed = faults.seek_failed.load(Ordering::SeqCst);
    let read_failed = faults.read_failed.load(Ordering::SeqCst);
    let desc = format!(
        "stream object, {} symbols, max_transfer_count {}, carousel {}, {} seek failure(s) from seek #{}, read failure at read #{}: attempts (packets per StartTransfer) {:?}",
        n_sym, maxc, carousel, seek_failed, seek_from, read_at, attempts
    );
    if open {
        o.fail("C12:start-without-stop", &format!("the last StartTransfer has no StopTransfer after {} polls over {} ms and removal; {}", polls, polls, desc));
    }
    if sender.is_added(toi) || sender.nb_objects() != 0 || !sender.get_objects_in_fdt().is_empty() {
        o.fail(
            "C12:failed-open-not-released",
            &format!("object still in the sender (is_added {}, nb_objects {}, objects in FDT {}); {}", sender.is_added(toi), sender.nb_objects(), sender.get_objects_in_fdt().len(), desc),
        );
    }
    let empty = attempts.iter().filter(|a| **a == 0).count() as u64;
    let full_tr = attempts.iter().filter(|a| **a == n_sym).count() as u64;
    let partial = attempts.len() as u64 - empty - full_tr;
    // C12 "exactly its configured number of times": judged on what the text fixes - at least max(1, m) attempts, at most
    // max(1, m) of them complete on the wire; whether an attempt that failed to start counts (today it does:
    // observation sched-9, outside C12's quantifier) is not demanded here
    if !carousel && ((attempts.len() as u64) < maxc.max(1) as u64 || full_tr > maxc.max(1) as u64) {
        o.fail("C12:transfer-count", &format!("{} transfer attempts ({} complete on the wire), max_transfer_count {}; {}", attempts.len(), full_tr, maxc, desc));
    }
    // a transfer without packet: the open failed (seek), or the source failed at the first read of the transfer
    // (since /repo 6808824 the encoder then ends the transfer without packet instead of sending a bogus empty one)
    if empty < seek_failed || empty > seek_failed + read_failed {
        o.fail("C12:empty-transfer", &format!("{} transfers without packet, {} injected seek failures, {} injected read failures; {}", empty, seek_failed, read_failed, desc));
    }
    if max_starts_per_call > 2 {
        o.fail(
            "C12:read-loops-over-failing-transfers",
            &format!("one Sender::read call started {} transfers of the object (each ended at once because its source fails): the loop of SenderSession::run runs through all remaining transfers before returning; {}", max_starts_per_call, desc.chars().take(300).collect::<String>()),
        );
    }
    // the last attempt of a carousel object may be cut by the removal (forced stop): allowed
    let cut_by_removal = (carousel && attempts.last().map(|a| *a != 0 && *a != n_sym).unwrap_or(false)) as u64;
    let truncated = partial - cut_by_removal.min(partial);
    let read_failed_left = read_failed.saturating_sub(empty.saturating_sub(seek_failed));
    if truncated > 0 {
        if truncated <= read_failed_left.max(read_failed.min(1)) {
            o.fail(
                "C12:truncated-transfer-on-source-read-error",
                &format!("a transfer ended after fewer packets than the object has (and was counted as a transfer); {}", desc),
            );
        } else {
            o.fail("C12:partial-transfer", &format!("{} truncated transfers, {} injected read failures; {}", truncated, read_failed, desc));
        }
    }
    if let Some((nt, finished, on_wire)) = nb_transfers_live {
        if nt != on_wire {
            if nt == finished && (seek_failed > 0 || read_failed > 0) {
                o.fail(
                    "C12:transfer-count-includes-failed-attempt",
                    &format!("nb_transfers = {} while {} complete transfers were seen on the wire ({} StartTransfer/StopTransfer pairs); {}", nt, on_wire, finished, desc),
                );
            } else {
                o.fail("C12:transfer-count", &format!("nb_transfers = {}, {} complete transfers on the wire, {} attempts finished; {}", nt, on_wire, finished, desc));
            }
        }
    }
    "ok".into()
}

/// Pacing of objects OUTSIDE the Lean model's domain (engine-only oracle, C14): FEC objects with repair packets and
/// content-encoded objects (transfer length != content length).  The clause is judged on the wire: with
/// tick = Duration::div_f64(target, ceil(transfer_length / E)) - the number of SOURCE packets of what is actually
/// transferred - the i-th packet of the transfer (in emission order, repair packets included) never leaves before
/// start + i * tick.
///
///   pace <rs|gz|nc> <nSym> <parity> <targetNs> <stepNs>                                      -> ok
pub fn pace(t: &[&str], o: &mut Oracle) -> String {
    if t.len() != 6 {
        return "bad-op".into();
    }
    let n: Vec<u64> = t[2..].iter().filter_map(|x| x.parse().ok()).collect();
    if n.len() != 4 || n[0] == 0 || n[3] == 0 {
        return "bad-op".into();
    }
    let (n_sym, parity, target, step) = (n[0], n[1] as u8, n[2], n[3]);
    let e: u16 = 16;
    let (oti, cenc) = match t[1] {
        "rs" => match Oti::new_reed_solomon_rs28(e, 4, parity) {
            Ok(x) => (x, flute::core::lct::Cenc::Null),
            Err(_) => return "bad-op".into(),
        },
        "gz" => (Oti::new_no_code(e, 8), flute::core::lct::Cenc::Gzip),
        "nc" => (Oti::new_no_code(e, 8), flute::core::lct::Cenc::Null),
        _ => return "bad-op".into(),
    };
    let config = Config { fdt_duration: Duration::from_secs(3600), fdt_carousel_mode: CarouselRepeatMode::DelayBetweenTransfers(Duration::from_secs(3600)), ..Default::default() };
    let mut sender = Sender::new(UDPEndpoint::new(None, "224.0.0.1".to_owned(), 3400), 1, &Oti::new_no_code(1400, 64), &config);
    let rec = Arc::new(Rec(Mutex::new(Vec::new())));
    sender.subscribe(rec.clone());
    // compressible content: the compressed object is much shorter than the content
    let content: Vec<u8> = (0..(e as u64 * n_sym)).map(|i| if t[1] == "gz" { (i / 64) as u8 } else { (i * 7 + 3) as u8 }).collect();
    let tc = TransferConfig {
        max_transfer_count: 1,
        oti: Some(oti),
        cenc,
        target_acquisition: Some(flute::sender::TargetAcquisition::WithinDuration(Duration::from_nanos(target))),
        ..Default::default()
    };
    let url = url::Url::parse("file:///paced.bin").unwrap();
    let obj = match ObjectDesc::create_from_buffer(content, "application/octet-stream", &url, false, tc) {
        Ok(x) => x,
        Err(_) => return "ERR".into(),
    };
    let src_pkts = obj.transfer_length.div_ceil(e as u64).max(1);
    let content_pkts = obj.content_length.div_ceil(e as u64).max(1);
    let tick = target / src_pkts; // exact integer division of the nanoseconds (/repo 9d73d78)
    let t0 = UNIX_EPOCH + Duration::from_secs(1_700_000_000);
    let toi = match sender.add_object(0, obj) {
        Ok(x) => x,
        Err(_) => return "ERR".into(),
    };
    if sender.publish(t0).is_err() {
        return "ERR".into();
    }
    let mut start: Option<u64> = None;
    let mut idx: u64 = 0;
    let mut seen = 0usize;
    let horizon = target.saturating_mul(3) / step + 50;
    let mut reported = false;
    for k in 0..horizon.min(200_000) {
        let now_ns = k * step;
        let now = t0 + Duration::from_nanos(now_ns);
        // drain this instant
        for _ in 0..10_000 {
            let d = sender.read(now);
            {
                let evs = rec.0.lock().unwrap();
                for (is_start, etoi) in evs.iter().skip(seen) {
                    if *is_start && *etoi == toi && start.is_none() {
                        start = Some(now_ns);
                    }
                }
                seen = evs.len();
            }
            let d = match d {
                Some(d) => d,
                None => break,
            };
            if let Ok(p) = parse_alc_pkt(&d) {
                if p.lct.toi == toi {
                    if let Some(s0) = start {
                        if !reported && (now_ns - s0) as u128 + 1 < (idx as u128) * (tick as u128) {
                            reported = true;
                            o.fail(
                                "C14:pacing-early",
                                &format!(
                                    "{} object ({} source packets of the transferred data, {} of the content, parity {}), target {} ns, tick {} ns: packet {} of the transfer (emission order) leaves at start+{} ns, before {} * tick",
                                    t[1], src_pkts, content_pkts, parity, target, tick, idx, now_ns - s0, idx
                                ),
                            );
                        }
                    }
                    idx += 1;
                }
            }
        }
        if !sender.is_added(toi) && idx > 0 {
            break;
        }
    }
    if idx < src_pkts {
        o.fail("C14:paced-object-not-sent", &format!("{} object: {} packets seen, {} source packets expected within 3 x target", t[1], idx, src_pkts));
    }
    "ok".into()
}

/// Interleave window of a FEC object with repair packets (engine-only oracle, C13; the scheduler model abstracts a
/// transfer to "n packets" and its generator is No-Code, where a block is empty once its source symbols are sent):
/// a block is open from its first to its last packet (repair packets included); at most max(1, interleave_blocks)
/// blocks are open at once and blocks are opened in increasing SBN.
///
///   window <parity> <nBlocks> <k> <il>                                                       -> ok
pub fn window(t: &[&str], o: &mut Oracle) -> String {
    if t.len() != 5 {
        return "bad-op".into();
    }
    let n: Vec<u64> = t[1..].iter().filter_map(|x| x.parse().ok()).collect();
    if n.len() != 4 || n[1] == 0 || n[2] == 0 || n[2] + n[0] > 255 {
        return "bad-op".into();
    }
    let (parity, nb_blocks, k, il) = (n[0], n[1], n[2], n[3]);
    let e: u16 = 16;
    let oti = match Oti::new_reed_solomon_rs28(e, k as u8, parity as u8) {
        Ok(x) => x,
        Err(_) => return "bad-op".into(),
    };
    let config = Config {
        interleave_blocks: il as u8,
        fdt_duration: Duration::from_secs(3600),
        fdt_carousel_mode: CarouselRepeatMode::DelayBetweenTransfers(Duration::from_secs(3600)),
        ..Default::default()
    };
    let mut sender = Sender::new(UDPEndpoint::new(None, "224.0.0.1".to_owned(), 3400), 1, &Oti::new_no_code(1400, 64), &config);
    let content: Vec<u8> = (0..(e as u64 * k * nb_blocks)).map(|i| (i * 5 + 1) as u8).collect();
    let tc = TransferConfig { max_transfer_count: 1, oti: Some(oti.clone()), ..Default::default() };
    let url = url::Url::parse("file:///fec.bin").unwrap();
    let obj = match ObjectDesc::create_from_buffer(content, "application/octet-stream", &url, false, tc) {
        Ok(x) => x,
        Err(_) => return "ERR".into(),
    };
    let now = UNIX_EPOCH + Duration::from_secs(1_700_000_000);
    let toi = match sender.add_object(0, obj) {
        Ok(x) => x,
        Err(_) => return "ERR".into(),
    };
    if sender.publish(now).is_err() {
        return "ERR".into();
    }
    let mut stream: Vec<u32> = Vec::new();
    for _ in 0..100_000 {
        let d = match sender.read(now) {
            Some(d) => d,
            None => break,
        };
        if let Ok(p) = parse_alc_pkt(&d) {
            if p.lct.toi == toi {
                match flute::core::alc::parse_payload_id(&p, &oti) {
                    Ok(id) => stream.push(id.sbn),
                    Err(_) => o.fail("C13:interleave-undecodable", "payload id of a FEC packet not parsed"),
                }
            }
        }
    }
    let per_block = (k + parity) as usize;
    if stream.len() != per_block * nb_blocks as usize {
        o.fail("C13:interleave-packet-count", &format!("{} packets for {} blocks of {} source + {} repair symbols", stream.len(), nb_blocks, k, parity));
        return "ok".into();
    }
    let w = il.max(1) as usize;
    let mut count: std::collections::BTreeMap<u32, usize> = std::collections::BTreeMap::new();
    let mut next_new: u32 = 0;
    for (pos, sbn) in stream.iter().enumerate() {
        if !count.contains_key(sbn) {
            if *sbn != next_new {
                o.fail("C13:interleave-order", &format!("block {} opened at packet {} although block {} has not been opened (RS {}+{}, window {})", sbn, pos, next_new, k, parity, w));
                break;
            }
            next_new += 1;
        }
        *count.entry(*sbn).or_insert(0) += 1;
        let open = count.values().filter(|c| **c < per_block).count() + if count[sbn] == per_block { 1 } else { 0 };
        if open > w {
            o.fail(
                "C13:interleave-window",
                &format!("{} blocks open at packet {} (RS {} source + {} repair symbols per block, {} blocks, interleave_blocks {}): SBN stream {:?}", open, pos, k, parity, nb_blocks, il, &stream[..stream.len().min(24)]),
            );
            break;
        }
    }
    "ok".into()
}
