//! C11..C14: the sender's scheduler.  Real `Sender` under a virtual clock vs the Lean model
//! `FluteModel/Sched.lean`; oracles = the property clauses on the decoded packet stream.
mod eng;
mod gen;
mod probe;

fn main() {
    harness_core::engine_main("sched", || Box::new(eng::SchedEngine::new()), gen::run);
}
