//! Seeded generator of operation histories for the scheduler + end-of-case oracles (drain phase).
use crate::eng::{Dec, SchedEngine};
use harness_core::{Ctx, Engine, Oracle, Rng};

pub const T0: u64 = 1_700_000_000_000_000_000;
const US: u64 = 1_000;
const MS: u64 = 1_000_000;
const S: u64 = 1_000_000_000;

pub struct Runner<'a> {
    pub ctx: &'a mut Ctx,
    pub eng: SchedEngine,
    buf: Vec<(String, String)>,
    pub now: u64,
    pub dead: bool,
    sig: String,
}

#[derive(Clone, Debug)]
pub struct AddSpec {
    pub prio: u32,
    pub n_sym: u64,
    pub maxc: u32,
    pub car: Option<(bool, u64)>,
    pub start: Option<u64>,
    pub target: Option<(char, u64)>,
    pub allow: bool,
    pub e: u16,
    pub bl: u32,
    pub rem: u16,
    /// `CacheControl::Expires(ns)` (u64::MAX = Duration::MAX); harness only
    pub cc: Option<u64>,
    /// fault schedule of a stream source (empty: buffer source)
    pub faults: Vec<u64>,
    /// EMPTY object with RaptorQ ('Q') / Raptor ('R') and `n_sym` parity symbols (harness token; model: n_sym packets)
    pub rateless: Option<char>,
}

impl AddSpec {
    pub fn simple(prio: u32, n_sym: u64) -> AddSpec {
        AddSpec { prio, n_sym, maxc: 1, car: None, start: None, target: None, allow: false, e: 4, bl: 64, rem: 4, cc: None, faults: Vec::new(), rateless: None }
    }
    pub fn line(&self) -> String {
        let (ck, cd) = match self.car {
            None => ("n", 0),
            Some((false, d)) => ("d", d),
            Some((true, d)) => ("i", d),
        };
        let (tk, td) = match self.target {
            None => ('n', 0),
            Some((k, d)) => (k, d),
        };
        let mut cc = self.cc.map(|x| format!(" x{}", x)).unwrap_or_default();
        if let Some(k) = self.rateless {
            cc.push_str(&format!(" {}{}", k, self.n_sym));
        }
        if !self.faults.is_empty() {
            cc.push_str(&format!(" F{}", self.faults.iter().map(|x| x.to_string()).collect::<Vec<_>>().join(",")));
        }
        format!(
            "sched add {} {} {} {} {} {} {} {} {} {} {} {}{}",
            self.prio,
            self.n_sym,
            self.maxc,
            ck,
            cd,
            self.start.map(|x| x.to_string()).unwrap_or("-".into()),
            tk,
            td,
            self.allow as u8,
            self.e,
            self.bl,
            self.rem,
            cc
        )
    }
}

#[derive(Clone, Debug)]
pub struct NewSpec {
    pub full: bool,
    pub fdt_car: (bool, u64),
    pub fdt_dur: u64,
    pub start_id: u64,
    pub il: u8,
    pub efdt: u16,
    pub fits: bool,
    pub queues: Vec<(u32, u32)>,
}

impl NewSpec {
    pub fn line(&self) -> String {
        let mut s = format!(
            "sched new {} {} {} {} {} {} {} {} {}",
            if self.full { "f" } else { "b" },
            if self.fdt_car.0 { "i" } else { "d" },
            self.fdt_car.1,
            self.fdt_dur,
            self.start_id,
            self.il,
            self.efdt,
            self.fits as u8,
            self.queues.len()
        );
        for (p, m) in &self.queues {
            s.push_str(&format!(" {} {}", p, m));
        }
        s
    }
}

impl<'a> Runner<'a> {
    pub fn new(ctx: &'a mut Ctx) -> Runner<'a> {
        Runner { ctx, eng: SchedEngine::new(), buf: Vec::new(), now: T0, dead: false, sig: String::new() }
    }

    pub fn begin(&mut self, id: &str) {
        self.eng.reset();
        self.ctx.case(id);
        self.buf.clear();
        self.now = T0;
        self.dead = false;
        self.sig.clear();
    }

    pub fn op(&mut self, op: String) -> String {
        if self.buf.len() > 60_000 {
            // runaway case (only possible on a broken sender): stop executing, keep what was observed - and say so
            if !self.dead {
                self.ctx.oracle_fail("C12:case-runaway", &format!("the case needed more than 60000 operations (a drain / polling loop of the generator does not come to an end): last op `{}`", op));
            }
            self.dead = true;
            return "none".into();
        }
        let mut o = Oracle::default();
        let obs = self.eng.exec(&op, &mut o);
        for (c, d) in o.fails {
            self.ctx.oracle_fail(&c, &format!("{} :: t={} op `{}` -> `{}`", d, self.now.wrapping_sub(T0), op, obs));
        }
        if obs == "PANIC" {
            self.dead = true;
        }
        self.buf.push((op, obs.clone()));
        obs
    }

    pub fn read(&mut self) -> String {
        let op = format!("sched read {}{}", self.now, self.eng.ticks_for(self.now));
        self.op(op)
    }

    /// read until `none` at the current instant; returns the number of packets
    pub fn read_until_none(&mut self, cap: u64) -> u64 {
        let mut n = 0;
        let mu = self.eng.mu();
        let zero = self.eng.cfg.as_ref().map(|c| c.fdt_dur == 0).unwrap_or(false);
        loop {
            let r = self.read();
            if r.ends_with("none") || self.dead || r == "bad-op" {
                return n;
            }
            n += 1;
            if n > mu && !zero && n <= cap {
                self.ctx.oracle_fail(
                    "C12:read-exceeds-measure",
                    &format!("{} consecutive packets from read() at the fixed instant {} exceed the measure {} of the state the loop started in", n, self.now.wrapping_sub(T0), mu),
                );
                self.dead = true;
                return n;
            }
            if n > cap {
                let zero_dur = self.eng.cfg.as_ref().map(|c| c.fdt_dur == 0).unwrap_or(false);
                self.ctx.oracle_fail(
                    if zero_dur { "C12:read-does-not-terminate-fdt-duration-0" } else { "C12:read-does-not-terminate" },
                    &format!("more than {} consecutive packets from read() at the fixed instant {}", cap, self.now - T0),
                );
                // the case is abandoned: nothing below may loop on a sender that never idles
                self.dead = true;
                return n;
            }
        }
    }

    /// the next instant at which something may become possible (from the harness's shadow state)
    pub fn next_instant(&self) -> u64 {
        let mut best = self.now + S;
        for o in self.eng.objs.values() {
            if o.removed.is_some() && !o.in_transfer {
                continue;
            }
            let mut cands: Vec<u64> = Vec::new();
            if let Some(s) = o.eff_start {
                cands.push(s);
            }
            if o.in_transfer {
                if let Some(t) = o.tick {
                    cands.push(o.t_start.saturating_add(o.sent.saturating_mul(t)));
                }
            } else if let Some((iv, d)) = o.car {
                let r = if iv { o.prev_start } else { o.prev_end_pkt };
                if let Some(r) = r {
                    cands.push(r.saturating_add(d).saturating_add(1));
                    // the end time the sender uses is the instant of the Stop event (>= last packet)
                    cands.push(self.now.saturating_add(d).saturating_add(1));
                }
            }
            for c in cands {
                if c > self.now && c < best {
                    best = c;
                }
            }
        }
        best
    }

    /// final phase: remove carousel objects, then poll (jumping to the next interesting instant) until
    /// nothing but FDT packets is produced; then the exact-count / no-stall clauses are judged
    pub fn drain(&mut self) {
        if self.dead || self.eng.cfg.is_none() {
            return;
        }
        let full = self.eng.cfg.as_ref().unwrap().full;
        // liveness of carousel objects (one more transfer after the gap) before they are removed
        let car: Vec<u64> = self.eng.objs.values().filter(|o| o.car.is_some() && o.removed.is_none()).map(|o| o.toi).collect();
        for t in car {
            self.op(format!("sched remove {}", t));
        }
        let mut rounds = 0;
        loop {
            let before = self.eng.obj_pkts;
            self.read_until_none(5000);
            if self.dead {
                return;
            }
            let busy = self.eng.objs.values().any(|o| o.in_transfer);
            let waiting = self.eng.objs.values().any(|o| {
                o.removed.is_none() && !o.gone && (!full || o.published_for_sure)
            });
            if !busy && !waiting && self.eng.obj_pkts == before {
                break;
            }
            rounds += 1;
            if rounds > 400 {
                let stuck: Vec<u64> = self
                    .eng
                    .objs
                    .values()
                    .filter(|o| o.in_transfer || (o.removed.is_none() && !o.gone && (!full || o.published_for_sure)))
                    .map(|o| o.toi)
                    .collect();
                self.ctx.oracle_fail(
                    "C12:transfer-count-stall",
                    &format!("objects {:?} neither finished their configured transfers nor left the sender after 400 polling rounds up to t={}", stuck, self.now - T0),
                );
                break;
            }
            self.now = self.next_instant();
        }
        // exact count: published, never removed, no carousel
        for o in self.eng.objs.values() {
            if o.car.is_none() && o.removed.is_none() && (!full || o.published_for_sure) && o.stops != o.burst() {
                self.ctx.oracle_fail(
                    "C12:transfer-count",
                    &format!("object {} (max_transfer_count {}) completed {} transfers", o.toi, o.maxc, o.stops),
                );
            }
            if let Some(r) = &o.removed {
                // (a faulted attempt of a faulty stream source legitimately sends nothing)
                if r.in_transfer && !r.stoppable && o.starts == r.starts_at_removal && o.sent != o.n_pk && o.faults.get(r.starts_at_removal.saturating_sub(1) as usize).is_none() {
                    self.ctx.oracle_fail(
                        "C12:remove-cut-first-transfer",
                        &format!("object {} removed during its first transfer (no immediate stop) sent only {} of {} packets", o.toi, o.sent, o.n_pk),
                    );
                }
            }
        }
        self.op("sched nb_objects".into());
        // once no object remains only FDT packets are produced
        if self.eng.objs.values().all(|o| o.gone || o.removed.is_some()) {
            for _ in 0..3 {
                self.now += 2 * S;
                let mut k = 0;
                loop {
                    let r = self.read();
                    if r.ends_with("none") || self.dead {
                        break;
                    }
                    if !matches!(self.eng.last_dec, Dec::Fdt { .. }) {
                        self.ctx.oracle_fail("C12:object-packet-when-empty", &format!("`{}` although no object remains", r));
                    }
                    k += 1;
                    if k > 200 {
                        break;
                    }
                }
            }
        }
    }

    pub fn finish(&mut self) {
        let keys: Vec<&str> = self.eng.nontrivial.iter().copied().collect();
        if self.eng.obj_pkts > 0 && keys.len() >= 2 {
            let mut h = String::new();
            for (op, _) in &self.buf {
                h.push_str(op);
                h.push('\n');
            }
            self.ctx.nontrivial(&h);
        }
        for k in keys {
            self.ctx.count(&format!("exercised:{}", k));
        }
        let tbl = self.eng.fdt_table_line();
        self.ctx.op(&tbl, "ok");
        let buf = std::mem::take(&mut self.buf);
        for (op, obs) in &buf {
            self.ctx.op(op, obs);
        }
        if self.ctx.samples.len() < 6 && buf.len() > 6 {
            let s: Vec<String> = buf.iter().take(14).map(|(a, b)| format!("{} -> {}", a.trim_start_matches("sched "), b)).collect();
            self.ctx.sample(s.join(" ; "));
        }
    }
}

fn rand_new(rng: &mut Rng) -> NewSpec {
    // mostly 1-3 queues, sometimes 4-5 (priorities with gaps: 0, 1, 2, 5, 9)
    let nq = if rng.chance(1, 6) { rng.range(4, 5) as usize } else { rng.range(1, 3) as usize };
    let mut prios: Vec<u32> = vec![0, 1, 2, 5, 9];
    let mut queues = Vec::new();
    for _ in 0..nq {
        let i = rng.below(prios.len() as u64) as usize;
        queues.push((prios.remove(i), rng.range(0, 3) as u32));
    }
    queues.sort();
    NewSpec {
        full: rng.bool(),
        fdt_car: (rng.bool(), *rng.pick(&[0, US, MS, S, 3600 * S])),
        fdt_dur: *rng.pick(&[1, US, MS, S, 5 * S, 20 * S, 60 * S, 3600 * S]),
        start_id: *rng.pick(&[1u64, 0, 0xFFFFE, 0xFFFFF, 77, 4242]),
        il: rng.range(0, 4) as u8,
        efdt: *rng.pick(&[200u16, 500, 1400]),
        fits: true,
        queues,
    }
}

fn rand_add(rng: &mut Rng, cfg: &NewSpec, now: u64, step: u64) -> AddSpec {
    let prio = if rng.chance(1, 25) { 77 } else { cfg.queues[rng.below(cfg.queues.len() as u64) as usize].0 };
    let bl = *rng.pick(&[3u32, 64]);
    let n_sym = match rng.below(10) {
        0 => 0,
        1 | 2 => 1,
        3 | 4 => bl.min(8) as u64,
        5 => 8,
        _ => rng.range(2, 12),
    };
    let e = *rng.pick(&[1u16, 2, 4, 16]);
    let maxc = if rng.chance(1, 30) { 0 } else { rng.range(1, 4) as u32 };
    let car = match rng.below(10) {
        0..=4 => None,
        5..=7 => Some((false, *rng.pick(&[0, step, 3 * step, 10 * step, S]))),
        _ => Some((true, *rng.pick(&[0, step, 5 * step, 20 * step, S]))),
    };
    let start = match rng.below(10) {
        0..=5 => None,
        6 => Some(now.saturating_sub(rng.range(1, 5) * step)),
        7 => Some(now),
        _ => Some(now + rng.range(1, 6) * step),
    };
    let target = match rng.below(12) {
        0..=6 => None,
        7 => Some(('f', 0)),
        8 => Some(('d', *rng.pick(&[0, 1, 7, 10 * step, 3 * step + 1, S / 3]))),
        9 => Some(('d', rng.range(0, 20) * step + rng.below(3))),
        10 => Some(('t', now + rng.range(0, 30) * step + rng.below(3))),
        _ => Some(('t', now.saturating_sub(rng.range(0, 5) * step))),
    };
    AddSpec { prio, n_sym, maxc, car, start, target, allow: rng.chance(1, 3), e, bl, rem: rng.range(1, e as u64) as u16, cc: if rng.chance(1, 12) { Some(u64::MAX) } else { None },
        // one object in eight comes from a stream source whose first transfer attempts fail to start
        faults: if rng.chance(1, 8) { (0..rng.range(1, 3)).map(|_| if n_sym == 0 { 0 } else { [0u64, 1, 4][rng.below(3) as usize] }).collect() } else { Vec::new() },
        rateless: None }
}

fn random_case(r: &mut Runner, rng: &mut Rng, id: &str) {
    r.begin(id);
    let cfg = rand_new(rng);
    let step = *rng.pick(&[US, US, S, S, MS]);
    r.ctx.count(if cfg.full { "mode:full" } else { "mode:being-transferred" });
    r.ctx.count(&format!("queues:{}", cfg.queues.len()));
    r.ctx.count(match step {
        US => "poll:1us",
        MS => "poll:1ms",
        _ => "poll:1s",
    });
    r.op(cfg.line());
    let nsteps = rng.range(8, 45);
    let mut nobj = 0u64;
    for _ in 0..nsteps {
        if r.dead {
            break;
        }
        match rng.below(100) {
            0..=17 if nobj < 6 => {
                let a = rand_add(rng, &cfg, r.now, step);
                r.ctx.count(&format!("mux:{}", cfg.queues.iter().find(|q| q.0 == a.prio).map(|q| q.1 as i64).unwrap_or(-1)));
                r.ctx.count(match a.n_sym {
                    0 => "size:empty",
                    1 => "size:1sym",
                    _ if a.n_sym <= a.bl as u64 => "size:1block",
                    _ => "size:multi-block",
                });
                r.ctx.count(match a.car {
                    None => "carousel:none",
                    Some((false, 0)) | Some((true, 0)) => "carousel:zero",
                    Some((false, _)) => "carousel:delay",
                    Some((true, _)) => "carousel:interval",
                });
                r.ctx.count(match a.target {
                    None => "target:none",
                    Some(('f', _)) => "target:fast",
                    Some(('d', _)) => "target:duration",
                    _ => "target:deadline",
                });
                r.ctx.count(&format!("max_transfer_count:{}", a.maxc));
                let obs = r.op(a.line());
                if obs.starts_with("ok") {
                    nobj += 1;
                }
                if cfg.full && rng.chance(2, 3) {
                    r.op(format!("sched publish {}", r.now));
                }
            }
            18..=25 => {
                r.op(format!("sched publish {}", r.now));
            }
            26..=31 => {
                let toi = if rng.chance(1, 6) { 99 } else { rng.range(1, nobj.max(1)) };
                r.op(format!("sched remove {}", toi));
            }
            32..=36 => {
                let toi = if rng.chance(1, 8) { 99 } else { rng.range(1, nobj.max(1)) };
                let ts = match rng.below(4) {
                    0 => "-".to_string(),
                    1 => r.now.saturating_sub(step).to_string(),
                    2 => r.now.to_string(),
                    _ => (r.now + rng.range(1, 4) * step).to_string(),
                };
                r.op(format!("sched trigger {} {}", toi, ts));
            }
            37..=62 => {
                let k = rng.range(1, 9);
                for _ in 0..k {
                    r.read();
                }
            }
            63..=72 => {
                r.read_until_none(5000);
            }
            73..=90 => {
                r.now += step * *rng.pick(&[1, 1, 2, 5]);
                r.read();
            }
            91..=93 => {
                r.now = r.next_instant();
                r.read();
            }
            94 => {
                r.op("sched nb_objects".into());
            }
            95 => {
                if rng.chance(1, 6) {
                    // set_complete: every later add_object must be refused
                    r.op("sched complete".into());
                    r.ctx.count("op:complete");
                    let a = rand_add(rng, &cfg, r.now, step);
                    r.op(a.line());
                } else {
                    r.op("sched nb_objects".into());
                }
            }
            96..=97 => {
                r.op(format!("sched is_added {}", rng.range(1, nobj.max(1))));
            }
            _ => {
                r.op(format!("sched nb_transfers {}", rng.range(1, nobj.max(1))));
            }
        }
    }
    for t in 1..=nobj {
        r.op(format!("sched nb_transfers {}", t));
    }
    r.drain();
    r.finish();
}

/// removal injected at every packet index of small transfers
fn removal_cases(r: &mut Runner, thorough: bool) {
    let nmax = if thorough { 5 } else { 3 };
    for full in [true, false] {
        for n_sym in 0..=nmax {
            let n_pk = (n_sym as u64).max(1);
            for maxc in [1u32, 2] {
                for car in [None, Some((false, 0u64)), Some((true, S))] {
                    for allow in [false, true] {
                        let total = n_pk * (maxc as u64 + if car.is_some() { maxc as u64 } else { 0 });
                        for cut in 0..=total {
                            r.begin(&format!("rm-{}-{}-{}-{:?}-{}-{}", full as u8, n_sym, maxc, car.map(|c| (c.0 as u8, c.1)), allow as u8, cut));
                            let cfg = NewSpec { full, fdt_car: (false, 3600 * S), fdt_dur: 3600 * S, start_id: 1, il: 1, efdt: 1400, fits: true, queues: vec![(0, 1)] };
                            r.op(cfg.line());
                            let mut a = AddSpec::simple(0, n_sym as u64);
                            a.maxc = maxc;
                            a.car = car;
                            a.allow = allow;
                            r.op(a.line());
                            r.op(format!("sched publish {}", r.now));
                            let mut k = 0;
                            let mut guard = 0;
                            while k < cut && guard < 200 {
                                let obs = r.read();
                                if matches!(r.eng.last_dec, Dec::Pkt { .. }) {
                                    k += 1;
                                }
                                if obs.ends_with("none") {
                                    r.now += 2 * S;
                                }
                                guard += 1;
                            }
                            r.op("sched nb_transfers 1".into());
                            r.op("sched is_added 1".into());
                            r.op("sched remove 1".into());
                            r.op("sched nb_transfers 1".into());
                            r.op("sched is_added 1".into());
                            r.drain();
                            r.finish();
                        }
                    }
                }
            }
        }
    }
}

/// small grid for C13: queues x objects x sizes x multiplex x interleave
fn grid_cases(r: &mut Runner, rng: &mut Rng, thorough: bool) {
    // sizes: empty, 1 symbol, 1 block (3 symbols, B=3), 3 unequal blocks (8 symbols, B=3 -> 3,3,2)
    let sizes: [(u64, u32); 4] = [(0, 3), (1, 3), (3, 3), (8, 3)];
    let mut all: Vec<(usize, Vec<(u32, usize)>, u32, u8, u8)> = Vec::new();
    for nq in 1..=3usize {
        for nobj in 1..=3usize {
            let combos = (nq * 4).pow(nobj as u32);
            for c in 0..combos {
                let mut objs = Vec::new();
                let mut x = c;
                for _ in 0..nobj {
                    let v = x % (nq * 4);
                    x /= nq * 4;
                    objs.push(((v / 4) as u32, v % 4));
                }
                for mux in 0..=3u32 {
                    for il in [1u8, 2, 4] {
                        for late in [0u8, 1] {
                            all.push((nq, objs.clone(), mux, il, late));
                        }
                    }
                }
            }
        }
    }
    let take = if thorough { all.len() } else { 400 };
    let exhaustive = take == all.len();
    for i in 0..take {
        let (nq, objs, mux, il, late) = if exhaustive { all[i].clone() } else { all[rng.below(all.len() as u64) as usize].clone() };
        r.begin(&format!("grid-{}-{:?}-{}-{}-{}", nq, objs, mux, il, late));
        let cfg = NewSpec {
            full: i % 2 == 0,
            fdt_car: (false, 3600 * S),
            fdt_dur: 3600 * S,
            start_id: 1,
            il,
            efdt: 1400,
            fits: true,
            queues: (0..nq as u32).map(|p| (p, mux)).collect(),
        };
        r.op(cfg.line());
        let n0 = if late == 1 { 1 } else { objs.len() };
        for (q, s) in objs.iter().take(n0) {
            let mut a = AddSpec::simple(*q, sizes[*s].0);
            a.bl = sizes[*s].1;
            r.op(a.line());
        }
        r.op(format!("sched publish {}", r.now));
        if late == 1 {
            // the other objects are added at successive packet indices
            for (j, (q, s)) in objs.iter().enumerate().skip(1) {
                for _ in 0..(1 + (i + j) % 3) {
                    r.read();
                }
                let mut a = AddSpec::simple(*q, sizes[*s].0);
                a.bl = sizes[*s].1;
                r.op(a.line());
                r.op(format!("sched publish {}", r.now));
            }
        }
        r.drain();
        r.finish();
    }
    r.ctx.count(if exhaustive { "grid:exhaustive" } else { "grid:sampled" });
}

/// timing: one or two objects, carousel / start time / pacing, fine and coarse polling
fn timing_cases(r: &mut Runner, rng: &mut Rng, n: usize) {
    for i in 0..n {
        r.begin(&format!("time-{}", i));
        let step = *rng.pick(&[US, S]);
        let cfg = NewSpec {
            full: rng.bool(),
            fdt_car: (rng.bool(), *rng.pick(&[S, 3600 * S])),
            fdt_dur: *rng.pick(&[5 * S, 3600 * S]),
            start_id: 1,
            il: 1,
            efdt: 1400,
            fits: true,
            queues: if rng.bool() { vec![(0, rng.range(0, 2) as u32)] } else { vec![(0, 1), (3, 2)] },
        };
        r.op(cfg.line());
        let nobj = rng.range(1, 3);
        for _ in 0..nobj {
            let mut a = rand_add(rng, &cfg, r.now, step);
            if a.prio == 77 {
                a.prio = 0;
            }
            if a.target.is_none() && rng.bool() {
                a.target = Some(('d', rng.range(0, 12) * step + rng.below(2)));
            }
            a.n_sym = rng.range(0, 6);
            r.op(a.line());
        }
        r.op(format!("sched publish {}", r.now));
        let polls = rng.range(10, 60);
        for _ in 0..polls {
            if r.dead {
                break;
            }
            match rng.below(10) {
                0..=5 => {
                    r.read_until_none(5000);
                    r.now += step * rng.range(1, 3);
                }
                6 | 7 => {
                    r.read();
                }
                8 => {
                    r.now = r.next_instant();
                }
                _ => {
                    let toi = rng.range(1, nobj);
                    if rng.bool() {
                        r.op(format!("sched trigger {} -", toi));
                    } else {
                        r.op(format!("sched trigger {} {}", toi, r.now + rng.range(0, 3) * step));
                    }
                }
            }
        }
        for t in 1..=nobj {
            r.op(format!("sched nb_transfers {}", t));
        }
        r.drain();
        r.finish();
    }
}

/// degenerate inputs: empty object with a target duration / deadline (D4), deadline in the past,
/// zero delays, max_transfer_count 0
fn degenerate_cases(r: &mut Runner) {
    let mut i = 0;
    for full in [true, false] {
        for n_sym in [0u64, 1, 3] {
            for target in [Some(('d', 0u64)), Some(('d', S)), Some(('t', T0 - S)), Some(('t', T0)), Some(('t', T0 + S)), Some(('f', 0)), None] {
                for car in [None, Some((false, 0u64)), Some((true, 0u64))] {
                    for maxc in [0u32, 1, 2] {
                        i += 1;
                        r.begin(&format!("degen-{}", i));
                        let cfg = NewSpec { full, fdt_car: (false, 0), fdt_dur: S, start_id: 0xFFFFF, il: (i % 2) as u8, efdt: 1400, fits: true, queues: vec![(0, 0)] };
                        r.op(cfg.line());
                        let mut a = AddSpec::simple(0, n_sym);
                        a.target = target;
                        a.car = car;
                        a.maxc = maxc;
                        r.op(a.line());
                        r.op(format!("sched publish {}", r.now));
                        for _ in 0..4 {
                            r.read_until_none(5000);
                            if r.dead {
                                break;
                            }
                            r.now += S / 2;
                        }
                        r.drain();
                        r.finish();
                    }
                }
            }
        }
    }
}

/// `fdt_duration = 0`: every idle poll of the FDT session republishes (finding F24)
fn zero_fdt_duration_case(r: &mut Runner) {
    for full in [true, false] {
        r.begin(&format!("fdtdur0-{}", full as u8));
        let cfg = NewSpec { full, fdt_car: (false, S), fdt_dur: 0, start_id: 1, il: 1, efdt: 1400, fits: true, queues: vec![(0, 1)] };
        r.op(cfg.line());
        r.op(AddSpec::simple(0, 2).line());
        r.op(format!("sched publish {}", r.now));
        r.read_until_none(120);
        r.finish();
    }
}

/// `fdt_start_id = u32::MAX`: `fdtid + 1` in `Fdt::publish` (repaired: wrapping_add)
fn start_id_max_case(r: &mut Runner) {
    for full in [true, false] {
        r.begin(&format!("startid-max-{}", full as u8));
        let cfg = NewSpec { full, fdt_car: (false, S), fdt_dur: 3600 * S, start_id: 4294967295, il: 1, efdt: 1400, fits: true, queues: vec![(0, 1)] };
        r.op(cfg.line());
        r.op(AddSpec::simple(0, 2).line());
        r.op(format!("sched publish {}", r.now));
        r.read_until_none(50);
        r.drain();
        r.finish();
    }
}

/// refused publication: the default OTI cannot carry any FDT (finding sched-3 in ObjectsBeingTransferred mode;
/// FullFDT: `publish` returns Err, nothing is sent)
fn publish_refused_cases(r: &mut Runner) {
    for full in [true, false] {
        for nobj in 1..=2u64 {
            for mux in [0u32, 2] {
                r.begin(&format!("pubrefused-{}-{}-{}", full as u8, nobj, mux));
                let cfg = NewSpec { full, fdt_car: (false, S), fdt_dur: 3600 * S, start_id: 1, il: 1, efdt: 1400, fits: false, queues: vec![(0, mux)] };
                r.op(cfg.line());
                for _ in 0..nobj {
                    r.op(AddSpec::simple(0, 2).line());
                }
                r.op(format!("sched publish {}", r.now));
                r.read_until_none(50);
                r.now += S;
                r.op(format!("sched publish {}", r.now));
                r.read_until_none(50);
                r.op("sched nb_objects".into());
                r.finish();
            }
        }
    }
}

/// removal in richer situations: a multiplexed sibling in transfer, removal while the pacing gate is closed,
/// a publication issued right before the removal (the forced packet waits for the FDT), being mode with a
/// multi-packet FDT
fn removal2_cases(r: &mut Runner) {
    for variant in 0..4u32 {
        for allow in [false, true] {
            for maxc in [1u32, 2] {
                for cut in 0..=6u64 {
                    r.begin(&format!("rm2-{}-{}-{}-{}", variant, allow as u8, maxc, cut));
                    let cfg = NewSpec {
                        full: variant != 3,
                        fdt_car: (false, 3600 * S),
                        fdt_dur: 3600 * S,
                        start_id: 1,
                        il: 1,
                        efdt: if variant == 3 { 200 } else { 1400 },
                        fits: true,
                        queues: vec![(0, if variant == 0 { 2 } else { 1 })],
                    };
                    r.op(cfg.line());
                    let mut a = AddSpec::simple(0, 3);
                    a.maxc = maxc;
                    a.allow = allow;
                    if variant == 1 {
                        a.target = Some(('d', 3 * S));
                    }
                    r.op(a.line());
                    if variant == 0 {
                        r.op(AddSpec::simple(0, 4).line());
                    }
                    r.op(format!("sched publish {}", r.now));
                    let mut k = 0;
                    let mut guard = 0;
                    while k < cut && guard < 100 {
                        let obs = r.read();
                        if let Dec::Pkt { toi: 1, .. } = r.eng.last_dec {
                            k += 1;
                        }
                        if obs.ends_with("none") {
                            r.now += S / 2;
                        }
                        guard += 1;
                    }
                    r.op("sched nb_transfers 1".into());
                    if variant == 2 {
                        r.op(format!("sched publish {}", r.now));
                    }
                    r.op("sched remove 1".into());
                    r.op("sched is_added 1".into());
                    r.drain();
                    r.finish();
                }
            }
        }
    }
}

/// the caller's clock goes backwards across an FDT carousel gap / an FDT expiry boundary
/// (`duration_since(..).unwrap_or_default()` branches)
fn clock_back_cases(r: &mut Runner) {
    for full in [true, false] {
        for back in [1u64, S, 10 * S] {
            r.begin(&format!("clockback-{}-{}", full as u8, back));
            let cfg = NewSpec { full, fdt_car: (false, S), fdt_dur: 5 * S, start_id: 1, il: 1, efdt: 1400, fits: true, queues: vec![(0, 1)] };
            r.op(cfg.line());
            let mut a = AddSpec::simple(0, 2);
            a.car = Some((false, 2 * S));
            r.op(a.line());
            r.now += 20 * S;
            r.op(format!("sched publish {}", r.now));
            for i in 0..12u64 {
                r.read_until_none(5000);
                if r.dead {
                    break;
                }
                if i % 3 == 2 {
                    r.now -= back;
                } else {
                    r.now += 3 * S;
                }
            }
            r.op("sched remove 1".into());
            r.read_until_none(5000);
            r.finish();
        }
    }
}

/// huge durations and deadlines: `fdt_duration = Duration::MAX` (u64 overflow in the FDT Expires, repaired),
/// `cache_control = Expires(Duration::MAX)` (SystemTime overflow while the FDT is built - in
/// ObjectsBeingTransferred mode inside `Sender::read` - repaired), carousel delay `Duration::MAX`, start time 0 and
/// far future, pacing targets around and above 2^53 ns where `Duration::div_f64` stops being exact
/// (finding `C14:tick-rounding-above-2^53`); polled one ns before and exactly at every due instant
fn huge_cases(r: &mut Runner) {
    const Y: u64 = 31_557_600 * S;
    let mut i = 0;
    for full in [true, false] {
        for (fdt_dur, cc, car) in [
            (u64::MAX, None, None),
            (u64::MAX - 1, None, None),
            (3600 * S, Some(u64::MAX), None),
            (3600 * S, Some(u64::MAX - 1), None),
            (3600 * S, Some(1u64 << 63), Some((false, u64::MAX))),
            (u64::MAX, Some(u64::MAX), Some((true, u64::MAX))),
        ] {
            i += 1;
            r.begin(&format!("huge-dur-{}", i));
            let cfg = NewSpec { full, fdt_car: (false, S), fdt_dur, start_id: 1, il: 1, efdt: 1400, fits: true, queues: vec![(0, 1)] };
            r.op(cfg.line());
            let mut a = AddSpec::simple(0, 2);
            a.cc = cc;
            a.car = car;
            a.maxc = 2;
            r.op(a.line());
            let mut b = AddSpec::simple(0, 1);
            b.start = Some(if i % 2 == 0 { 0 } else { u64::MAX - 1 });
            r.op(b.line());
            r.op(format!("sched publish {}", r.now));
            for _ in 0..4 {
                r.read_until_none(5000);
                if r.dead {
                    break;
                }
                r.now += 10 * S;
            }
            r.op("sched remove 1".into());
            r.op("sched remove 2".into());
            r.read_until_none(5000);
            r.finish();
        }
    }
    for kind in ['d', 't'] {
        for target in [(1u64 << 53) - 1, (1u64 << 53) + 1, 10 * Y, 30 * Y, 1u64 << 62] {
            for n in [1u64, 3, 7] {
                i += 1;
                r.begin(&format!("huge-target-{}", i));
                let cfg = NewSpec { full: true, fdt_car: (false, 3600 * S), fdt_dur: 3600 * S, start_id: 1, il: 1, efdt: 1400, fits: true, queues: vec![(0, 1)] };
                r.op(cfg.line());
                let mut a = AddSpec::simple(0, n);
                a.target = Some((kind, if kind == 't' { T0 + target } else { target }));
                r.op(a.line());
                r.op(format!("sched publish {}", r.now));
                let tick = crate::eng::div_tick(target, n);
                r.read_until_none(5000);
                for k in 1..=n {
                    if r.dead {
                        break;
                    }
                    r.now = T0 + k * tick - 1;
                    r.read_until_none(5000);
                    r.now += 1;
                    r.read_until_none(5000);
                }
                r.now += S;
                r.read_until_none(5000);
                r.finish();
            }
        }
    }
}

/// pacing of objects outside the model's domain (engine-only oracle, see probe.rs): Reed-Solomon objects with
/// repair packets, gzip content-encoded objects, No-Code control
fn pace_probe_cases(r: &mut Runner) {
    let mut i = 0;
    for (kind, parity) in [("nc", 0u64), ("rs", 1), ("rs", 2), ("rs", 3), ("gz", 0)] {
        for n_sym in [4u64, 9, 40, 200] {
            for target in [4 * S, 10 * S] {
                i += 1;
                r.begin(&format!("paceprobe-{}", i));
                r.op(format!("sched pace {} {} {} {} {}", kind, n_sym, parity, target, target / 400));
                r.finish();
            }
        }
    }
}

/// interleave window of Reed-Solomon objects with repair packets (engine-only oracle, see probe.rs)
fn window_probe_cases(r: &mut Runner) {
    let mut i = 0;
    for parity in [0u64, 1, 2, 3] {
        for nb_blocks in [1u64, 2, 4, 7] {
            for k in [1u64, 2, 5] {
                for il in [1u64, 2, 3, 4] {
                    i += 1;
                    r.begin(&format!("windowprobe-{}", i));
                    r.op(format!("sched window {} {} {} {}", parity, nb_blocks, k, il));
                    r.finish();
                }
            }
        }
    }
}

/// instants in NTP era 1 (after 2036-02-07) and paced objects with two transfers (second transfer's start and due
/// times, pacing gate carried over), polled finely around every due instant
fn era1_and_paced2_cases(r: &mut Runner) {
    let era1: u64 = (4_294_967_296 - 2_208_988_800 + 100) * S;
    let mut i = 0;
    for base in [T0, era1] {
        for full in [true, false] {
            for n in [1u64, 3] {
                for car in [None, Some((false, 2 * S)), Some((true, 5 * S))] {
                    for kind in ['d', 't'] {
                        i += 1;
                        r.begin(&format!("paced2-{}", i));
                        r.now = base;
                        let cfg = NewSpec { full, fdt_car: (false, 3600 * S), fdt_dur: 3600 * S, start_id: 1, il: 1, efdt: 1400, fits: true, queues: vec![(0, 1)] };
                        r.op(cfg.line());
                        let mut a = AddSpec::simple(0, n);
                        a.maxc = 2;
                        a.car = car;
                        a.start = Some(base + S);
                        a.target = Some((kind, if kind == 't' { base + 4 * S } else { 3 * S }));
                        r.op(a.line());
                        r.op(format!("sched publish {}", r.now));
                        for _ in 0..60 {
                            r.read_until_none(5000);
                            if r.dead {
                                break;
                            }
                            r.now += S / 4;
                        }
                        r.op("sched remove 1".into());
                        r.read_until_none(5000);
                        r.finish();
                    }
                }
            }
        }
    }
}

/// FDT-only starvation under real-time polling (review batch 3; finding sched-11): the clock advances by `step` per
/// read.  When one FDT instance has so many packets that sending it at the polling rate takes at least the time
/// between a publication and the next republication (`fdt_duration` minus the republish lead of 5 s / 1 s / 0), the
/// instance is due for republication as soon as it has been sent, a successor is always pending and the objects never
/// get a packet.  Each configuration is run twice: `step` just above the threshold (starves: known class) and at a
/// third of it (control: objects must be sent).
fn fdt_starvation_cases(r: &mut Runner) {
    let mut i = 0;
    for full in [true, false] {
        // fdt_duration 0 (accepted by Sender::new): threshold 0 - with an ADVANCING clock every poll republishes (the
        // repair of F24 only covers repeated polls at one instant); no control possible (every positive step starves)
        for fdt_dur in [0, S, 12 * S, 40 * S] {
            let lead = if fdt_dur > 30 * S { 5 * S } else if fdt_dur > 10 * S { S } else { 0 };
            // starve: one instance takes at least fdt_duration - lead to send; control far from / just below the boundary
            for variant in ["starve", "far", "near"] {
                if fdt_dur == 0 && variant != "starve" {
                    continue;
                }
                i += 1;
                r.begin(&format!("fdtstarve-{}", i));
                // tiny FDT symbols: one instance = many packets
                let cfg = NewSpec { full, fdt_car: (false, 3600 * S), fdt_dur, start_id: 1, il: 1, efdt: 16, fits: true, queues: vec![(0, 1)] };
                r.op(cfg.line());
                let mut a = AddSpec::simple(0, 2);
                a.car = Some((false, MS));
                r.op(a.line());
                r.op(format!("sched publish {}", r.now));
                // phase 1: one instant, everything goes out once; this tells how many packets an instance has
                r.read_until_none(5000);
                if r.dead {
                    r.finish();
                    continue;
                }
                // instances differ in size (being-transferred mode lists the object or not): the smallest one decides
                // whether EVERY instance outlives its own transmission, the largest one whether NONE does
                let n_min = r.eng.fdt_tbl.values().copied().min().unwrap_or(1).max(1);
                let n_max = r.eng.fdt_tbl.values().copied().max().unwrap_or(1).max(1);
                let thr = fdt_dur - lead;
                let step = match variant {
                    "starve" => thr / n_min + 1,
                    "far" => (thr / n_max / 3).max(1),
                    // largest step with (n_max + 1) * step < threshold: the instance is released before it is due again
                    _ => (thr.saturating_sub(1) / (n_max + 1)).max(1),
                };
                let starve = variant == "starve";
                // phase 2: real-time polling, one read per `step`; warm-up until the instance sent in phase 1 (at one
                // instant) is due for republication, then the steady state is measured
                for _ in 0..(n_min + 2) {
                    r.now += step;
                    r.read();
                    if r.dead {
                        break;
                    }
                }
                let before = r.eng.obj_pkts;
                let polls = 4 * n_max + 40;
                for _ in 0..polls {
                    r.now += step;
                    r.read();
                    if r.dead {
                        break;
                    }
                }
                let sent = r.eng.obj_pkts - before;
                if sent == 0 && !r.dead {
                    let d = format!(
                        "{} reads, one every {} ns: FDT packets only, 0 object packets although the carousel object is eligible; one FDT instance = {}..{} packets, fdt_duration {} ns, republish lead {} ns: sending one instance takes >= {} ns, threshold {} ns",
                        polls, step, n_min, n_max, fdt_dur, lead, n_min * step, thr
                    );
                    r.ctx.oracle_fail(if starve { "C12:fdt-only-starvation-slow-polling" } else { "C12:fdt-only-starvation-unexplained" }, &d);
                }
                if starve && sent > 0 && !r.dead {
                    r.ctx.count("fdtstarve:not-reproduced");
                }
                if starve && fdt_dur == 0 {
                    r.ctx.count("fdtstarve:duration-0-advancing-clock");
                }
                r.op("sched remove 1".into());
                r.finish();
            }
        }
    }
}

/// EMPTY objects sent with a rateless codec from a buffer: one transfer = `parity` repair packets of the empty block
/// (finding benc-3); the model takes the packet count of one transfer as input (nSym of the op line)
fn empty_rateless_cases(r: &mut Runner) {
    let mut i = 0;
    for full in [true, false] {
        for kind in ['Q', 'R'] {
            for parity in [1u64, 2, 3] {
                for maxc in [1u32, 3] {
                    for car in [None, Some((false, 20 * MS))] {
                        i += 1;
                        r.begin(&format!("emptyrateless-{}", i));
                        let cfg = NewSpec { full, fdt_car: (false, S), fdt_dur: 3600 * S, start_id: 1, il: 1, efdt: 1400, fits: true, queues: vec![(0, 1 + (i % 2) as u32)] };
                        r.op(cfg.line());
                        let mut a = AddSpec::simple(0, parity);
                        a.maxc = maxc;
                        a.car = car;
                        a.rateless = Some(kind);
                        a.e = 16;
                        a.rem = 16;
                        r.op(a.line());
                        r.op(AddSpec::simple(0, 2).line());
                        r.op(format!("sched publish {}", r.now));
                        for k in 0..6u64 {
                            r.read_until_none(5000);
                            if r.dead {
                                break;
                            }
                            r.op("sched nb_transfers 1".into());
                            if k == 4 && car.is_some() {
                                r.op("sched remove 1".into());
                            }
                            r.now += 15 * MS;
                        }
                        r.drain();
                        r.finish();
                    }
                }
            }
        }
    }
}

/// stream sources whose transfer attempts FAIL TO START (the rewind or the first read fails), in the main flow: compared
/// with the Lean model (`AddArgs.faults`): both publish modes, 1-3 attempts, carousel or not, with a healthy peer in the
/// same / a lower priority queue, multiplex 1-2, removal in between
fn fault_model_cases(r: &mut Runner) {
    let mut i = 0;
    for full in [true, false] {
        for mux in [1u32, 2] {
            for maxc in [1u32, 2, 3] {
                for car in [None, Some((false, 20 * MS))] {
                    for faults in [vec![0u64], vec![1], vec![0, 0], vec![1, 0], vec![0, 1, 1], vec![7, 7, 0], vec![0, 9, 0, 9]] {
                        i += 1;
                        r.begin(&format!("faultmodel-{}", i));
                        let cfg = NewSpec { full, fdt_car: (false, S), fdt_dur: 3600 * S, start_id: 1, il: 1 + (i % 2) as u8, efdt: 1400, fits: true, queues: vec![(0, mux), (3, 1)] };
                        r.op(cfg.line());
                        let mut a = AddSpec::simple(0, 3);
                        a.maxc = maxc;
                        a.car = car;
                        a.faults = faults.clone();
                        r.op(a.line());
                        r.op(AddSpec::simple(0, 2).line());
                        r.op(AddSpec::simple(3, 2).line());
                        r.op(format!("sched publish {}", r.now));
                        for k in 0..8u64 {
                            r.read_until_none(5000);
                            if r.dead {
                                break;
                            }
                            r.op("sched nb_transfers 1".into());
                            r.op("sched nb_objects".into());
                            if k == 5 && car.is_some() {
                                r.op("sched remove 1".into());
                            }
                            r.now += 15 * MS;
                        }
                        r.drain();
                        r.finish();
                    }
                }
            }
        }
    }
}

/// `trigger_transfer_at` on an object that WAITS between two of its transfers (non-carousel, max_transfer_count >= 2, one
/// slot held by a peer): the close-object flag must still end the object's real last transfer (C08 close-flag clause seen
/// from the scheduler; asked for by agent benc, whose engine drives a single object)
fn trigger_between_cases(r: &mut Runner) {
    let mut i = 0;
    for full in [true, false] {
        for maxc in [2u32, 3] {
            for (n_a, n_b) in [(3u64, 4u64), (5, 9), (1, 2)] {
                for after in [1u64, 2] {
                    for twice in [false, true] {
                        if after >= maxc as u64 {
                            continue;
                        }
                        i += 1;
                        r.begin(&format!("trigbetween-{}", i));
                        let cfg = NewSpec { full, fdt_car: (false, S), fdt_dur: 3600 * S, start_id: 1, il: 1, efdt: 1400, fits: true, queues: vec![(0, 1)] };
                        r.op(cfg.line());
                        let mut a = AddSpec::simple(0, n_a);
                        a.maxc = maxc;
                        r.op(a.line());
                        let mut b = AddSpec::simple(0, n_b);
                        b.maxc = 3;
                        r.op(b.line());
                        r.op(format!("sched publish {}", r.now));
                        let mut left = if twice { 2 } else { 1 };
                        for _ in 0..400 {
                            let x = r.read();
                            if r.dead || x == "bad-op" {
                                break;
                            }
                            let waits = r.eng.objs.get(&1).map(|o| !o.in_transfer && o.stops >= after && o.removed.is_none()).unwrap_or(false);
                            let peer = r.eng.objs.get(&2).map(|o| o.in_transfer).unwrap_or(false);
                            if left > 0 && waits && peer {
                                left -= 1;
                                r.op("sched trigger 1 -".into());
                            }
                            if x.ends_with("none") {
                                r.now += 5 * MS;
                                if r.eng.objs.values().all(|o| o.gone && !o.in_transfer) {
                                    break;
                                }
                            }
                        }
                        r.op("sched nb_transfers 1".into());
                        r.op("sched nb_objects".into());
                        r.drain();
                        r.finish();
                    }
                }
            }
        }
    }
}

/// stream sources whose seek / read fails after the object was added (engine-only oracle, see probe.rs):
/// seek failure at the k-th transfer start, transient and permanent, read failure inside a transfer
fn stream_fault_cases(r: &mut Runner) {
    let mut i = 0;
    // permanently failing source and a large max_transfer_count: how many transfers does ONE read call run through?
    for (maxc, read_at) in [(5u32, 1_000_001u64), (500, 1_000_001), (1_200, 1_000_001), (1_200, 1_000_002)] {
        i += 1;
        r.begin(&format!("streamfault-loop-{}", i));
        r.op(format!("sched probe f 3 {} n 0 0 {}", maxc, read_at));
        r.finish();
    }
    for full in ["f", "b"] {
        for car in ["n", "d"] {
            for maxc in [1u32, 2, 3] {
                for (from, count, read_at) in [(0u64, 0u64, 0u64), (1, 1, 0), (2, 1, 0), (1, 2, 0), (1, 1_000_000, 0), (3, 1_000_000, 0), (0, 0, 1), (0, 0, 2), (0, 0, 3), (2, 1, 3), (0, 0, 1_000_001), (0, 0, 1_000_002)] {
                    for n_sym in [1u64, 5, 9] {
                        i += 1;
                        r.begin(&format!("streamfault-{}", i));
                        r.op(format!("sched probe {} {} {} {} {} {} {}", full, n_sym, maxc, car, from, count, read_at));
                        r.finish();
                    }
                }
            }
        }
    }
}

pub fn run(ctx: &mut Ctx, _eng: &mut dyn Engine) {
    let thorough = ctx.tier_thorough;
    let seed = ctx.seed;
    ctx.rule = "operation histories (add/publish/remove/trigger/read/queries under a virtual clock, fine and coarse polling) on the real \
                Sender vs the Lean model, every read's events + decoded packet compared; families: random histories, removal at every packet \
                index, C13 grid (queues x objects x sizes x multiplex x interleave), timing, degenerate inputs; non-trivial = case with object \
                packets that exercises at least two of {multiplexed transfers, removal during a transfer, carousel restart, paced transfer, \
                start time, trigger, multi-block object, complete FDT}, distinct by op list"
        .to_string();
    let mut rng = Rng::new(seed);
    let mut r = Runner::new(ctx);
    degenerate_cases(&mut r);
    zero_fdt_duration_case(&mut r);
    start_id_max_case(&mut r);
    publish_refused_cases(&mut r);
    removal2_cases(&mut r);
    clock_back_cases(&mut r);
    huge_cases(&mut r);
    fault_model_cases(&mut r);
    trigger_between_cases(&mut r);
    fdt_starvation_cases(&mut r);
    empty_rateless_cases(&mut r);
    stream_fault_cases(&mut r);
    pace_probe_cases(&mut r);
    window_probe_cases(&mut r);
    era1_and_paced2_cases(&mut r);
    removal_cases(&mut r, thorough);
    grid_cases(&mut r, &mut rng, thorough);
    timing_cases(&mut r, &mut rng, if thorough { 3000 } else { 300 });
    let n = if thorough { 12000 } else { 1200 };
    for i in 0..n {
        random_case(&mut r, &mut rng, &format!("rand-{}", i));
    }
}
