//! Output context: operation lines (fed to the Lean model), implementation observation lines
//! (one per operation line), oracle failures and statistics.
use std::collections::{BTreeMap, HashSet};
use std::fs::File;
use std::io::{BufWriter, Write};

/// Oracle sink handed to engines: the property's predicate evaluated on the implementation.
#[derive(Default)]
pub struct Oracle {
    pub fails: Vec<(String, String)>,
}
impl Oracle {
    pub fn fail(&mut self, class: &str, desc: &str) {
        self.fails.push((class.to_string(), desc.to_string()));
    }
}

/// An engine executes operation lines against the REAL implementation.
pub trait Engine {
    /// called at every `case` line
    fn reset(&mut self);
    /// execute one operation line, return the canonical observation line
    fn exec(&mut self, op: &str, o: &mut Oracle) -> String;
    /// end-of-case oracle checks
    fn end_case(&mut self, _o: &mut Oracle) {}
}

/// Watchdog shared with a monitor thread: if one operation of the REAL implementation does not return within
/// `VERIF_OP_TIMEOUT` seconds (default 120), the monitor writes `<outdir>/<name>.hang` (case id + the op lines of the
/// current case, the last one being the call that hangs) and ends the process with exit code 3.  `./check` turns that
/// into a VIOLATION with those ops as the replay.  (A hung thread cannot be cancelled, hence the process exit.)
pub struct Watch {
    pub state: std::sync::Mutex<WatchState>,
}
pub struct WatchState {
    pub busy_since: Option<std::time::Instant>,
    pub case_id: String,
    pub case_ops: Vec<String>,
    pub hang_path: String,
}
pub static WATCH: std::sync::OnceLock<Watch> = std::sync::OnceLock::new();

pub fn start_watchdog(outdir: &str, name: &str) {
    let limit: u64 = std::env::var("VERIF_OP_TIMEOUT").ok().and_then(|x| x.parse().ok()).unwrap_or(120);
    let _ = WATCH.set(Watch {
        state: std::sync::Mutex::new(WatchState {
            busy_since: None,
            case_id: String::new(),
            case_ops: Vec::new(),
            hang_path: format!("{}/{}.hang", outdir, name),
        }),
    });
    std::thread::spawn(move || loop {
        std::thread::sleep(std::time::Duration::from_millis(500));
        if let Some(w) = WATCH.get() {
            let st = w.state.lock().unwrap();
            if let Some(t) = st.busy_since {
                if t.elapsed().as_secs() >= limit {
                    let v = serde_json::json!({"case": st.case_id, "ops": st.case_ops, "timeout_s": limit});
                    let _ = std::fs::write(&st.hang_path, serde_json::to_string(&v).unwrap());
                    eprintln!("watchdog: operation did not return within {} s: {:?}", limit, st.case_ops.last());
                    std::process::exit(3);
                }
            }
        }
    });
}

fn watch_case(id: &str) {
    if let Some(w) = WATCH.get() {
        let mut st = w.state.lock().unwrap();
        st.case_id = id.to_string();
        st.case_ops.clear();
        st.case_ops.push(format!("case {}", id));
    }
}
fn watch_begin(op: &str) {
    if let Some(w) = WATCH.get() {
        let mut st = w.state.lock().unwrap();
        if st.case_ops.len() < 100_000 {
            st.case_ops.push(op.to_string());
        }
        st.busy_since = Some(std::time::Instant::now());
    }
}
fn watch_end() {
    if let Some(w) = WATCH.get() {
        w.state.lock().unwrap().busy_since = None;
    }
}

pub struct Ctx {
    pub tier_thorough: bool,
    pub seed: u64,
    ops: BufWriter<File>,
    imp: BufWriter<File>,
    oracle: BufWriter<File>,
    stats_path: String,
    pub evaluations: u64,
    nontrivial: HashSet<u64>,
    pub dist: BTreeMap<String, u64>,
    pub samples: Vec<String>,
    pub oracle_fails: u64,
    pub exhaustive: bool,
    pub rule: String,
    cur_case: String,
    lines: u64,
}

fn fnv(s: &str) -> u64 {
    let mut h: u64 = 0xcbf29ce484222325;
    for b in s.as_bytes() {
        h ^= *b as u64;
        h = h.wrapping_mul(0x100000001b3);
    }
    h
}

impl Ctx {
    pub fn new(outdir: &str, name: &str, thorough: bool, seed: u64) -> Ctx {
        std::fs::create_dir_all(outdir).unwrap();
        let f = |ext: &str| {
            BufWriter::with_capacity(
                1 << 20,
                File::create(format!("{}/{}.{}", outdir, name, ext)).unwrap(),
            )
        };
        Ctx {
            tier_thorough: thorough,
            seed,
            ops: f("ops"),
            imp: f("impl"),
            oracle: f("oracle"),
            stats_path: format!("{}/{}.stats.json", outdir, name),
            evaluations: 0,
            nontrivial: HashSet::new(),
            dist: BTreeMap::new(),
            samples: Vec::new(),
            oracle_fails: 0,
            exhaustive: false,
            rule: String::new(),
            cur_case: String::new(),
            lines: 0,
        }
    }

    /// start a new case: resets stateful model engines
    pub fn case(&mut self, id: &str) {
        watch_case(id);
        self.cur_case = id.to_string();
        self.evaluations += 1;
        writeln!(self.ops, "case {}", id).unwrap();
        writeln!(self.imp, "case {}", id).unwrap();
        self.lines += 1;
    }

    /// execute `op` on the engine (real code), record op + observation, return the observation
    pub fn step(&mut self, eng: &mut dyn Engine, op: &str) -> String {
        let mut o = Oracle::default();
        watch_begin(op);
        let obs = eng.exec(op, &mut o);
        watch_end();
        self.op(op, &obs);
        for (c, d) in o.fails {
            self.oracle_fail(&c, &format!("{} :: op `{}` -> `{}`", d, trunc(op), trunc(&obs)));
        }
        obs
    }

    pub fn end_case(&mut self, eng: &mut dyn Engine) {
        let mut o = Oracle::default();
        eng.end_case(&mut o);
        for (c, d) in o.fails {
            self.oracle_fail(&c, &d);
        }
    }

    /// one operation line for the model and the implementation's observation of it
    pub fn op(&mut self, op: &str, observed: &str) {
        debug_assert!(!op.contains('\n') && !observed.contains('\n'));
        writeln!(self.ops, "{}", op).unwrap();
        writeln!(self.imp, "{}", observed).unwrap();
        self.lines += 1;
    }

    /// the property's oracle is false on the implementation's behaviour for the current case
    pub fn oracle_fail(&mut self, class: &str, desc: &str) {
        self.oracle_fails += 1;
        writeln!(
            self.oracle,
            "FAIL\t{}\t{}\t{}",
            class,
            self.cur_case,
            desc.replace('\n', " ").replace('\t', " ")
        )
        .unwrap();
    }

    /// mark the current case as non-trivial; `key` is its canonical form (distinctness)
    pub fn nontrivial(&mut self, key: &str) {
        self.nontrivial.insert(fnv(key));
    }

    pub fn count(&mut self, key: &str) {
        *self.dist.entry(key.to_string()).or_insert(0) += 1;
    }

    pub fn sample(&mut self, s: String) {
        if self.samples.len() < 12 {
            self.samples.push(s);
        }
    }

    pub fn finish(mut self) {
        self.ops.flush().unwrap();
        self.imp.flush().unwrap();
        self.oracle.flush().unwrap();
        let v = serde_json::json!({
            "evaluations": self.evaluations,
            "distinct_nontrivial": self.nontrivial.len(),
            "lines": self.lines,
            "distribution": self.dist,
            "samples": self.samples,
            "oracle_fails": self.oracle_fails,
            "exhaustive": self.exhaustive,
            "rule": self.rule,
        });
        std::fs::write(&self.stats_path, serde_json::to_string_pretty(&v).unwrap()).unwrap();
    }
}

fn trunc(s: &str) -> String {
    if s.len() > 300 {
        format!("{}...", &s[..300])
    } else {
        s.to_string()
    }
}

/// replay mode: execute an ops file against the real code, print `impl` and `oracle` files
pub fn exec_file(eng: &mut dyn Engine, ops_path: &str, outdir: &str, name: &str) {
    let text = std::fs::read_to_string(ops_path).expect("ops file");
    let mut c = Ctx::new(outdir, name, false, 0);
    let mut in_case = false;
    for line in text.lines() {
        let line = line.trim();
        if line.is_empty() {
            continue;
        }
        if let Some(id) = line.strip_prefix("case ") {
            if in_case {
                c.end_case(eng);
            }
            eng.reset();
            c.case(id);
            in_case = true;
        } else {
            c.step(eng, line);
        }
    }
    if in_case {
        c.end_case(eng);
    }
    c.finish();
}

pub fn hex(b: &[u8]) -> String {
    if b.is_empty() {
        return "-".to_string();
    }
    let mut s = String::with_capacity(b.len() * 2);
    for x in b {
        s.push_str(&format!("{:02x}", x));
    }
    s
}

/// run `f`, mapping a panic to Err(location)
pub fn guarded<T>(f: impl FnOnce() -> T + std::panic::UnwindSafe) -> Result<T, String> {
    IN_GUARD.with(|g| g.set(g.get() + 1));
    let r = std::panic::catch_unwind(f);
    IN_GUARD.with(|g| g.set(g.get() - 1));
    match r {
        Ok(v) => Ok(v),
        Err(_) => Err(LAST_PANIC.with(|c| c.borrow().clone())),
    }
}

thread_local! {
    pub static LAST_PANIC: std::cell::RefCell<String> = std::cell::RefCell::new(String::new());
    pub static IN_GUARD: std::cell::Cell<u32> = std::cell::Cell::new(0);
}

pub fn install_panic_hook() {
    std::panic::set_hook(Box::new(|info| {
        let loc = info
            .location()
            .map(|l| {
                let f = l.file();
                let f = f.rsplit("/src/").next().unwrap_or(f);
                format!("{}:{}", f, l.line())
            })
            .unwrap_or_else(|| "?".to_string());
        if IN_GUARD.with(|g| g.get()) == 0 {
            eprintln!("harness panic (outside a guarded call): {}", info);
        }
        LAST_PANIC.with(|c| *c.borrow_mut() = loc);
    }));
}
