pub mod ctx;
pub mod rng;
pub use ctx::{exec_file, guarded, hex, install_panic_hook, Ctx, Engine, Oracle};
pub use rng::Rng;

/// Standard `main` of an engine binary:
///   <bin> <quick|thorough> <seed> <outdir>          generate cases, run them on the real code
///   <bin> exec <opsfile> <outdir>                   replay an ops file on the real code
pub fn engine_main(name: &str, mut make: impl FnMut() -> Box<dyn Engine>, gen: impl FnOnce(&mut Ctx, &mut dyn Engine)) {
    let args: Vec<String> = std::env::args().collect();
    if args.len() < 4 {
        eprintln!("usage: {0} <quick|thorough> <seed> <outdir>\n       {0} exec <opsfile> <outdir>", name);
        std::process::exit(2);
    }
    install_panic_hook();
    if args[1] == "exec" {
        ctx::start_watchdog(&args[3], name);
        let mut e = make();
        exec_file(e.as_mut(), &args[2], &args[3], name);
        return;
    }
    let thorough = args[1] == "thorough";
    let seed: u64 = args[2].parse().unwrap_or(1);
    ctx::start_watchdog(&args[3], name);
    let mut c = Ctx::new(&args[3], name, thorough, seed);
    let mut e = make();
    gen(&mut c, e.as_mut());
    c.finish();
}
