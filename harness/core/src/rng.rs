//! One PRNG (xorshift64*) for every random choice, seeded from VERIF_SEED.
#[derive(Clone)]
pub struct Rng(pub u64);

impl Rng {
    pub fn new(seed: u64) -> Rng {
        let mut r = Rng(seed ^ 0x9E37_79B9_7F4A_7C15);
        if r.0 == 0 {
            r.0 = 0x1234_5678_9ABC_DEF1;
        }
        for _ in 0..4 {
            r.next();
        }
        r
    }
    pub fn next(&mut self) -> u64 {
        let mut x = self.0;
        x ^= x >> 12;
        x ^= x << 25;
        x ^= x >> 27;
        self.0 = x;
        x.wrapping_mul(0x2545_F491_4F6C_DD1D)
    }
    /// uniform in [0, n)
    pub fn below(&mut self, n: u64) -> u64 {
        if n == 0 {
            0
        } else {
            self.next() % n
        }
    }
    pub fn range(&mut self, lo: u64, hi: u64) -> u64 {
        lo + self.below(hi - lo + 1)
    }
    pub fn bool(&mut self) -> bool {
        self.next() & 1 == 1
    }
    pub fn chance(&mut self, num: u64, den: u64) -> bool {
        self.below(den) < num
    }
    pub fn pick<'a, T>(&mut self, xs: &'a [T]) -> &'a T {
        &xs[self.below(xs.len() as u64) as usize]
    }
    pub fn bytes(&mut self, n: usize) -> Vec<u8> {
        (0..n).map(|_| self.next() as u8).collect()
    }
    pub fn u128(&mut self) -> u128 {
        ((self.next() as u128) << 64) | self.next() as u128
    }
    /// a value with a random bit width up to `bits`
    pub fn bits(&mut self, bits: u32) -> u128 {
        let w = self.range(0, bits as u64) as u32;
        if w == 0 {
            0
        } else if w == 128 {
            self.u128()
        } else {
            self.u128() & ((1u128 << w) - 1)
        }
    }
}
