mod ctx;
mod eng_part;
mod rng;

use ctx::Engine;

fn engine(name: &str) -> Box<dyn Engine> {
    match name {
        "part" => Box::new(eng_part::PartEngine),
        _ => {
            eprintln!("unknown engine {}", name);
            std::process::exit(2);
        }
    }
}

fn main() {
    let args: Vec<String> = std::env::args().collect();
    if args.len() < 5 {
        eprintln!("usage: flute-harness <engine> <quick|thorough> <seed> <outdir>\n       flute-harness exec <engine> <opsfile> <outdir>");
        std::process::exit(2);
    }
    ctx::install_panic_hook();
    if args[1] == "exec" {
        let mut e = engine(&args[2]);
        ctx::exec_file(e.as_mut(), &args[3], &args[4], &args[2]);
        return;
    }
    let name = args[1].as_str();
    let thorough = args[2] == "thorough";
    let seed: u64 = args[3].parse().unwrap_or(1);
    let outdir = args[4].as_str();
    let mut c = ctx::Ctx::new(outdir, name, thorough, seed);
    match name {
        "part" => eng_part::run(&mut c),
        _ => {
            eprintln!("unknown engine {}", name);
            std::process::exit(2);
        }
    }
    c.finish();
}
