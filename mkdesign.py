#!/usr/bin/env python3
"""regenerates the generated sections of DESIGN.md: §5b (per property, as built: from props.d + evidence) and §10 (seeded changes)"""
import json, os, re
V = os.path.dirname(os.path.abspath(__file__))
props = {}
for l in open(os.path.join(V, "properties.jsonl")):
    p = json.loads(l); props[p["id"]] = p
kf = json.load(open(os.path.join(V, "known_findings.json")))["findings"]
out = []
for pid in sorted(props):
    f = os.path.join(V, "props.d", pid + ".json")
    if not os.path.exists(f):
        out.append(f"### {pid} {props[pid]['title']}\nnot claimed.\n"); continue
    c = json.load(open(f)); m = c["manifest"]
    ev = {}
    ef = os.path.join(V, "evidence", pid + ".json")
    if os.path.exists(ef):
        ev = json.load(open(ef))
    cov = ev.get("coverage", {})
    thms = [t["theorem"].replace("Flute.Props.", "") for t in cov.get("theorems", [])]
    out.append(f"### {pid} {props[pid]['title']} — level: proof")
    out.append(f"* **Engines** (correspondence + oracle): {', '.join(c['engines'])}.  **Technique**: {m.get('technique','')}.")
    out.append(f"* **What is proved / checked**: {m['text']}")
    out.append(f"* **Theorems** ({cov.get('discharged','?')}/{cov.get('obligations','?')} discharged in the last run, axioms ⊆ {{propext, Classical.choice, Quot.sound}}): " + ", ".join(f"`{t}`" for t in thms))
    out.append(f"* **Trusted / assumed**: {m['note']}")
    for a in c.get("assumptions", []):
        out.append(f"  - {a}")
    for t in c.get("trusted", []):
        out.append(f"  - (trusted) {t}")
    fs = [e for e in kf if e.get("property") == pid]
    if fs:
        out.append("* **Defects**: " + "; ".join((f"fixed {e.get('commit','')[:7]}" if e['status'] == 'fixed' else f"finding `{e.get('class','')}`") + f" ({e.get('id','')})" for e in fs))
    corr = cov.get("correspondence", {})
    if corr:
        out.append("* **Last run**: " + "; ".join(f"{e}: {v['lines_compared']} lines compared, {v['mismatches']} mismatches, {v.get('oracle_fails',0)} oracle failures (known findings included)" for e, v in corr.items()) + f"; {ev.get('tier','')} tier, {ev.get('wall_s','?')} s.")
    out.append("")
sec5 = "\n".join(out)
# seeded
rows = []
rp = os.path.join(V, "seeded", "results.json")
if os.path.exists(rp):
    res = json.load(open(rp))
    rows.append("| id | property | seeded change (needs … to manifest) | detected by | concrete replay |")
    rows.append("|---|---|---|---|---|")
    for i in sorted(res):
        r = res[i]
        mp = os.path.join(V, "seeded", i, "meta.json")
        title = r.get("title", ""); miss_note = ""
        if os.path.exists(mp):
            mm = json.load(open(mp)); title = mm.get("title", title); miss_note = mm.get("miss_note", "")
        if not r.get("applied"):
            rows.append(f"| {i} | {r['property']} | {title[:140]} | (patch no longer applies to HEAD after a later fix) | - |"); continue
        det = []
        for p, c in r["checks"].items():
            for v in c["violations"]:
                mm = re.search(r"replay=replays/\S+?-oracle-(.+?)-\d+\.json", v)
                det.append(f"{p}: oracle `{mm.group(1)}`" if mm else f"{p}: " + ("correspondence" if "corr" in v else v.split("replay=")[-1][:40]))
        rows.append(f"| {i} | {r['property']} | {title[:140].replace('|','/')} | {'; '.join(sorted(set(det))[:3]) if r['detected'] else ('**MISSED**' + (' - ' + miss_note if miss_note else ''))} | {'yes' if r['with_input'] else ('no-failing-input-found' if r['detected'] else '-')} |")
    n = sum(1 for r in res.values() if r.get("applied")); d = sum(1 for r in res.values() if r.get("applied") and r["detected"])
    rows.insert(0, f"{d} of {n} applicable seeded changes are reported as VIOLATION by the quick tier of the property's check (run through `seeded/run_seeded.py`, i.e. `VERIF_REPO=<scratch worktree with the patch> ./check <Cxx> quick`; /repo is never touched).\n")
sec10 = "\n".join(rows)
dp = os.path.join(V, "DESIGN.md")
d = open(dp).read()
def put(d, tag, body):
    a = d.index(f"<!-- {tag}-BEGIN"); a = d.index("\n", a) + 1
    b = d.index(f"<!-- {tag}-END")
    return d[:a] + body + "\n" + d[b:]
d = put(d, "ASBUILT", sec5)
d = put(d, "SEEDED", sec10)
open(dp, "w").write(d)
print("DESIGN.md regenerated:", len(out), "lines in §5b,", len(rows), "rows in §10")
